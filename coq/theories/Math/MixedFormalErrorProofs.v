(* C12, floating point: a direct binary64 ERROR BOUND for the two-pass formal variance / stddev on GENUINELY MIXED
   lists of Python ints and floats (fvariance_run / fstddev_run of the model, reduce = True and streaming).

   First pass (the mean): builtin sum adds the leading ints exactly, adds the first float and every later INT to the
   float accumulator with a plain rounded addition (no compensation), and compensates every later FLOAT item
   (Neumaier).  With n additions, kf compensated and ki uncompensated ones, T = sum of the magnitudes, S the exact sum:
       | sum_hat - S |  <=  u |S|  +  (1 + u) ( ((1+u)^n - 1) u kf (1+u)^n T  +  u ki (1+u)^n T )
   (the compensated part as in PySumErrorProofs.v, plus one rounding u (1+u)^n T per uncompensated addition).
   Second pass: every item, int or float, enters as float(item) - mean, so the analysis of
   FormalVarianceErrorProofs.v applies verbatim with the larger mean error.
   Side conditions: every int item and the total of the leading ints below 2^53 in magnitude (so that float(int) is
   exact), fewer than 2^53 items, every intermediate float finite (mfvar_fin, executable). *)
From Coq Require Import List ZArith Reals Lra Lia Floats Bool.
From Flocq Require Import Core BinarySingleNaN PrimFloat.
From RxVerif Require Import Math.Exact Math.FloatModel Math.SumErrorProofs Math.MeanErrorProofs Math.FloatOpsProofs
  Math.VarianceNonnegProofs Math.WelfordReal Math.WelfordErrorProofs Math.StddevErrorProofs Math.PySumErrorProofs
  Math.FormalVarianceErrorProofs Math.MixedItemsProofs Math.MixedFormalProofs.
Import ListNotations.
Local Open Scope R_scope.

(* ================= the summation machine: items tagged compensated (true) / uncompensated (false) ================= *)
Definition item : Type := (bool * pfloat)%type.
Fixpoint gsum (f c : pfloat) (l : list item) : pfloat :=
  match l with
  | [] => finish f c
  | (true, x) :: r => gsum (f + x)%float (c + comp f x)%float r
  | (false, x) :: r => gsum (f + x)%float c r
  end.
Definition tag (n : num) : item := match n with NF x => (true, x) | NI v => (false, f_of_Z v) end.
Definition vals (l : list item) : list pfloat := map snd l.
Fixpoint gcomps (f : pfloat) (l : list item) : list pfloat :=
  match l with
  | [] => []
  | (true, x) :: r => comp f x :: gcomps (f + x)%float r
  | (false, x) :: r => gcomps (f + x)%float r
  end.

Lemma sum_float_gsum : forall (l : list num) (f c : pfloat), sum_float f c l = gsum f c (map tag l).
Proof.
  induction l as [|[v|x] r IH]; intros f c; [reflexivity| |].
  - cbn [map tag sum_float gsum]. apply IH.
  - cbn [map tag sum_float gsum]. unfold comp.
    destruct (Coq.Floats.PrimFloat.abs x <=? Coq.Floats.PrimFloat.abs f)%float; apply IH.
Qed.

Lemma gsum_fold : forall (l : list item) (f c : pfloat),
  gsum f c l = finish (fold_left padd (vals l) f) (fold_left padd (gcomps f l) c).
Proof.
  induction l as [|[[|] x] r IH]; intros f c; [reflexivity| |]; cbn [gsum vals map snd gcomps fold_left]; apply IH.
Qed.

(* the rounding error of one addition, and its (signed / absolute) sums over the steps tagged b *)
Definition serr (f x : pfloat) : R := FR f + FR x - FR (f + x)%float.
Fixpoint sgnerr (b : bool) (f : pfloat) (l : list item) : R :=
  match l with [] => 0 | (b', x) :: r => (if Bool.eqb b b' then serr f x else 0) + sgnerr b (f + x)%float r end.
Fixpoint abserr (b : bool) (f : pfloat) (l : list item) : R :=
  match l with [] => 0 | (b', x) :: r => (if Bool.eqb b b' then Rabs (serr f x) else 0) + abserr b (f + x)%float r end.
Fixpoint cnt (b : bool) (l : list item) : nat :=
  match l with [] => O | (b', _) :: r => ((if Bool.eqb b b' then 1 else 0) + cnt b r)%nat end.

Lemma err_telescope : forall (l : list item) (f : pfloat),
  sgnerr true f l + sgnerr false f l = FR f + sumR (map FR (vals l)) - FR (fold_left padd (vals l) f).
Proof.
  induction l as [|[b x] r IH]; intro f; [cbn; ring|].
  cbn [sgnerr vals map snd sumR fold_right fold_left]. fold (vals r). fold (sumR (map FR (vals r))).
  pose proof (IH (f + x)%float) as E. unfold serr. destruct b; cbn [Bool.eqb]; lra.
Qed.
Lemma sgn_le_abs (b : bool) : forall (l : list item) (f : pfloat), Rabs (sgnerr b f l) <= abserr b f l.
Proof.
  induction l as [|[b' x] r IH]; intro f; [cbn; rewrite Rabs_R0; lra|].
  cbn [sgnerr abserr]. eapply Rle_trans; [apply Rabs_triang|]. specialize (IH (f + x)%float).
  destruct (Bool.eqb b b'); [lra|rewrite Rabs_R0; lra].
Qed.

Lemma gcomps_exact : forall (l : list item) (f : pfloat),
  ffin f -> Forall ffin (scan_states padd f (vals l)) -> Forall ffin (gcomps f l) ->
  sumR (map FR (gcomps f l)) = sgnerr true f l
  /\ sumR (map (fun e => Rabs (FR e)) (gcomps f l)) = abserr true f l.
Proof.
  induction l as [|[b x] r IH]; intros f Ff Hs Hc; [split; reflexivity|].
  cbn [vals map snd scan_states] in Hs. fold (vals r) in Hs. inversion Hs as [|? ? Ft Hsr]; subst.
  destruct (add_fin_inv _ _ Ft) as (_ & Fx).
  destruct b; cbn [gcomps sgnerr abserr Bool.eqb] in *.
  - inversion Hc as [|? ? Fc Hcr]; subst. destruct (IH _ Ft Hsr Hcr) as (IH1 & IH2).
    cbn [map sumR fold_right]. fold (sumR (map FR (gcomps (f + x)%float r))).
    fold (sumR (map (fun e => Rabs (FR e)) (gcomps (f + x)%float r))).
    rewrite IH1, IH2, (comp_exact f x Ff Fx Ft Fc). unfold serr. split; reflexivity.
  - destruct (IH _ Ft Hsr Hc) as (IH1 & IH2). rewrite IH1, IH2. split; ring.
Qed.

Lemma gcomps_length : forall (l : list item) (f : pfloat), (length (gcomps f l) <= length l)%nat.
Proof.
  induction l as [|[[|] x] r IH]; intro f; cbn [gcomps length]; [lia| |]; specialize (IH (f + x)%float); lia.
Qed.

Lemma grow_step (u n' G af ax at' Tr Er : R) :
  0 <= u -> 1 <= G -> 0 <= n' -> 0 <= Tr -> 0 <= af -> 0 <= ax ->
  at' <= (1 + u) * (af + ax) -> Er <= u * (n' * G) * (at' + Tr) ->
  Er <= u * (n' * ((1 + u) * G)) * (af + (ax + Tr)).
Proof.
  intros Hu HG Hn HT Haf Hax Hat HEr.
  assert (HuT : 0 <= u * Tr) by (apply Rmult_le_pos; assumption).
  assert (H1 : at' + Tr <= (1 + u) * (af + ax + Tr)) by lra.
  assert (HnG : 0 <= u * (n' * G)) by (apply Rmult_le_pos; [assumption|apply Rmult_le_pos; lra]).
  assert (H2 : u * (n' * G) * (at' + Tr) <= u * (n' * G) * ((1 + u) * (af + ax + Tr))).
  { apply Rmult_le_compat_l; assumption. }
  replace (u * (n' * ((1 + u) * G)) * (af + (ax + Tr))) with (u * (n' * G) * ((1 + u) * (af + ax + Tr))) by ring.
  lra.
Qed.

Lemma abserr_bound (b : bool) : forall (l : list item) (f : pfloat),
  ffin f -> Forall ffin (scan_states padd f (vals l)) ->
  abserr b f l <= u53 * (INR (cnt b l) * (1 + u53) ^ length l)
                  * (Rabs (FR f) + sumR (map (fun x => Rabs (FR x)) (vals l))).
Proof.
  induction l as [|[b' x] r IH]; intros f Ff Hs.
  - cbn. right. ring.
  - cbn [vals map snd scan_states] in Hs. fold (vals r) in Hs. inversion Hs as [|? ? Ft Hsr]; subst.
    destruct (add_fin_inv _ _ Ft) as (_ & Fx).
    destruct (add_finite_error f x Ff Fx Ft) as (d & Bd & Ed).
    specialize (IH _ Ft Hsr).
    assert (Hat : Rabs (FR (f + x)%float) <= (1 + u53) * (Rabs (FR f) + Rabs (FR x))).
    { rewrite Ed, Rabs_mult, Rmult_comm. pose proof u53_pos. apply Rmult_le_compat; try apply Rabs_pos.
      - eapply Rle_trans; [apply Rabs_triang|]. rewrite Rabs_R1. lra.
      - apply Rabs_triang. }
    cbn [abserr cnt vals map snd sumR fold_right length]. fold (vals r).
    fold (sumR (map (fun x0 => Rabs (FR x0)) (vals r))). cbn [pow].
    destruct (Bool.eqb b b').
    + rewrite plus_INR. change (INR 1) with 1. rewrite (Rplus_comm 1).
      apply (comps_step u53 (INR (cnt b r)) ((1 + u53) ^ length r) (Rabs (FR f)) (Rabs (FR x))
               (Rabs (FR (f + x)%float))); try assumption.
      * apply u53_pos.
      * apply pow1u_ge1.
      * apply pos_INR.
      * apply sumR_abs_nonneg.
      * apply Rabs_pos.
      * apply Rabs_pos.
      * unfold serr. rewrite Ed.
        replace (FR f + FR x - (FR f + FR x) * (1 + d)) with (- d * (FR f + FR x)) by ring.
        rewrite Rabs_mult, Rabs_Ropp. apply Rmult_le_compat; try apply Rabs_pos; [exact Bd|apply Rabs_triang].
    + cbn [Nat.add]. rewrite Rplus_0_l.
      apply (grow_step u53 (INR (cnt b r)) ((1 + u53) ^ length r) (Rabs (FR f)) (Rabs (FR x))
               (Rabs (FR (f + x)%float))); try assumption.
      * apply u53_pos.
      * apply pow1u_ge1.
      * apply pos_INR.
      * apply sumR_abs_nonneg.
      * apply Rabs_pos.
      * apply Rabs_pos.
Qed.

Lemma final_bound2 (u S fn cn d sF sI Z1 Z2 r : R) :
  0 <= u -> Rabs d <= u -> r = (fn + cn) * (1 + d) -> sF + sI = S - fn ->
  Rabs (cn - sF) <= Z1 -> Rabs sI <= Z2 ->
  Rabs (r - S) <= u * Rabs S + (1 + u) * (Z1 + Z2).
Proof.
  intros Hu Hd -> HS H1 H2. set (D := (cn - sF) - sI).
  assert (HD : Rabs D <= Z1 + Z2).
  { unfold D. eapply Rle_trans; [apply Rabs_triang|]. rewrite Rabs_Ropp. lra. }
  replace ((fn + cn) * (1 + d) - S) with (D + d * (S + D)) by (unfold D; replace fn with (S - sF - sI) by lra; ring).
  assert (H3 : Rabs (d * (S + D)) <= u * (Rabs S + Rabs D)).
  { rewrite Rabs_mult. apply Rmult_le_compat; try apply Rabs_pos; [exact Hd|apply Rabs_triang]. }
  assert (H4 : u * Rabs D <= u * (Z1 + Z2)) by (apply Rmult_le_compat_l; assumption).
  eapply Rle_trans; [apply Rabs_triang|]. lra.
Qed.

(* n additions, kf compensated, ki uncompensated, a >= |exact sum|, T = sum of the magnitudes *)
Definition gsum_bound (n kf ki : nat) (a T : R) : R :=
  u53 * a + (1 + u53) * (((1 + u53) ^ n - 1) * (u53 * (INR kf * (1 + u53) ^ n) * T)
                         + u53 * (INR ki * (1 + u53) ^ n) * T).

Theorem gsum_error (f0 : pfloat) (l : list item) :
  ffin f0 -> Forall ffin (scan_states padd f0 (vals l)) -> Forall ffin (scan_states padd zero (gcomps f0 l)) ->
  ffin (gsum f0 zero l) ->
  Rabs (FR (gsum f0 zero l) - (FR f0 + sumR (map FR (vals l))))
  <= gsum_bound (length l) (cnt true l) (cnt false l) (Rabs (FR f0 + sumR (map FR (vals l))))
       (Rabs (FR f0) + sumR (map (fun x => Rabs (FR x)) (vals l))).
Proof.
  intros Ff Hs Hcs Fr. rewrite gsum_fold in *.
  pose proof (scan_fin_items _ _ Hcs) as Hc.
  pose proof (fold_fin _ _ Ff Hs) as Ffn. pose proof (fold_fin _ _ (eq_refl : ffin zero) Hcs) as Fcn.
  rewrite (finish_R _ _ Ffn Fcn Fr).
  destruct (RND_sum_err _ _ (F64_FR (fold_left padd (vals l) f0)) (F64_FR (fold_left padd (gcomps f0 l) zero)))
    as (d & Bd & Ed).
  pose proof (fsum_error (gcomps f0 l) zero eq_refl Hc Hcs) as B.
  rewrite FR_zero, Rabs_R0, !Rplus_0_l in B.
  destruct (gcomps_exact l f0 Ff Hs Hc) as (E1 & E2). rewrite E1, E2 in B.
  pose proof (abserr_bound true l f0 Ff Hs) as AF. pose proof (abserr_bound false l f0 Ff Hs) as AI.
  pose proof (sgn_le_abs false l f0) as SI. pose proof (err_telescope l f0) as TL.
  pose proof u53_pos as U. pose proof (pow1u_ge1 (length l)) as G1. pose proof (pow1u_ge1 (length (gcomps f0 l))) as G2.
  assert (Gm : (1 + u53) ^ length (gcomps f0 l) <= (1 + u53) ^ length l).
  { apply Rle_pow; [lra|apply gcomps_length]. }
  assert (A0 : 0 <= abserr true f0 l) by (eapply Rle_trans; [apply Rabs_pos|apply (sgn_le_abs true l f0)]).
  set (T := Rabs (FR f0) + sumR (map (fun x => Rabs (FR x)) (vals l))) in *.
  set (EF := u53 * (INR (cnt true l) * (1 + u53) ^ length l) * T) in *.
  assert (Z1 : Rabs (FR (fold_left padd (gcomps f0 l) zero) - sgnerr true f0 l) <= ((1 + u53) ^ length l - 1) * EF).
  { eapply Rle_trans; [exact B|]. apply Rmult_le_compat; lra. }
  unfold gsum_bound. fold T. fold EF.
  apply (final_bound2 u53 _ (FR (fold_left padd (vals l) f0)) (FR (fold_left padd (gcomps f0 l) zero)) d
           (sgnerr true f0 l) (sgnerr false f0 l)); try assumption.
  lra.
Qed.

Lemma gsum_bound_mono (n n' kf kf' ki ki' : nat) (a a' T T' : R) :
  (n <= n')%nat -> (kf <= kf')%nat -> (ki <= ki')%nat -> a <= a' -> 0 <= T -> T <= T' ->
  gsum_bound n kf ki a T <= gsum_bound n' kf' ki' a' T'.
Proof.
  intros Hn Hkf Hki Ha HT0 HT. unfold gsum_bound. pose proof u53_pos as U.
  pose proof (pow1u_ge1 n) as G1. assert (HG : (1 + u53) ^ n <= (1 + u53) ^ n') by (apply Rle_pow; [lra|exact Hn]).
  set (G := (1 + u53) ^ n) in *. set (G' := (1 + u53) ^ n') in *.
  assert (Kf : INR kf <= INR kf') by (apply le_INR; exact Hkf). assert (Ki : INR ki <= INR ki') by (apply le_INR; exact Hki).
  pose proof (pos_INR kf) as Pf. pose proof (pos_INR ki) as Pi.
  assert (A1 : u53 * a <= u53 * a') by (apply Rmult_le_compat_l; assumption).
  assert (B1 : INR kf * G <= INR kf' * G') by (apply Rmult_le_compat; lra).
  assert (B2 : INR ki * G <= INR ki' * G') by (apply Rmult_le_compat; lra).
  assert (B0 : 0 <= INR kf * G) by (apply Rmult_le_pos; lra).
  assert (B0' : 0 <= INR ki * G) by (apply Rmult_le_pos; lra).
  assert (C1 : u53 * (INR kf * G) <= u53 * (INR kf' * G')) by (apply Rmult_le_compat_l; assumption).
  assert (C2 : u53 * (INR ki * G) <= u53 * (INR ki' * G')) by (apply Rmult_le_compat_l; assumption).
  assert (C0 : 0 <= u53 * (INR kf * G)) by (apply Rmult_le_pos; assumption).
  assert (C0' : 0 <= u53 * (INR ki * G)) by (apply Rmult_le_pos; assumption).
  assert (D1 : u53 * (INR kf * G) * T <= u53 * (INR kf' * G') * T') by (apply Rmult_le_compat; assumption).
  assert (D2 : u53 * (INR ki * G) * T <= u53 * (INR ki' * G') * T') by (apply Rmult_le_compat; assumption).
  assert (D0 : 0 <= u53 * (INR kf * G) * T) by (apply Rmult_le_pos; assumption).
  assert (E1 : (G - 1) * (u53 * (INR kf * G) * T) <= (G' - 1) * (u53 * (INR kf' * G') * T')).
  { apply Rmult_le_compat; lra. }
  assert (F1 : (1 + u53) * ((G - 1) * (u53 * (INR kf * G) * T) + u53 * (INR ki * G) * T)
               <= (1 + u53) * ((G' - 1) * (u53 * (INR kf' * G') * T') + u53 * (INR ki' * G') * T')).
  { apply Rmult_le_compat_l; lra. }
  lra.
Qed.

(* x - 0.0 = x, bit for bit *)
Lemma sub_zero_id (x : pfloat) : ffin x -> (x - zero)%float = x.
Proof.
  intro Fx. destruct (minus_zero x Fx) as (F1 & E1). apply float_ext; try assumption.
  apply ffin_equiv in Fx. rewrite sub_equiv.
  assert (Fz : is_finite (Prim2B zero) = true) by (apply ffin_equiv; reflexivity).
  pose proof (Bminus_correct prec emax Hprec Hmax mode_NE (Prim2B x) (Prim2B zero) Fx Fz) as C.
  assert (Ez : B2R (Prim2B zero) = 0) by exact FR_zero. rewrite Ez, Rminus_0_r in C.
  rewrite Rlt_bool_true in C.
  - destruct C as (_ & _ & C3). rewrite C3.
    destruct (Rcompare_spec (B2R (Prim2B x)) 0) as [L|L|L].
    + rewrite sign_of_R by (try assumption; lra). symmetry. apply Rlt_bool_true. exact L.
    + assert (Sz : Bsign (Prim2B zero) = false) by (rewrite zero_equiv, Prim2B_B2Prim; reflexivity).
      rewrite Sz. cbn [negb]. apply andb_true_r.
    + rewrite sign_of_R by (try assumption; lra). symmetry. apply Rlt_bool_false. lra.
  - change (round radix2 _ _ (B2R (Prim2B x))) with (RND (FR x)). rewrite RND_FR. apply abs_B2R_lt_emax.
Qed.

(* ================= builtin sum on a mixed list ================= *)
Definition item_ok (n : num) : Prop := match n with NI z => small z | NF x => ffin x end.
Definition nval (n : num) : R := FR (to_f n).
Definition nabs (n : num) : R := Rabs (nval n).
Fixpoint nI (l : list num) : nat := match l with [] => O | NI _ :: r => S (nI r) | NF _ :: r => nI r end.
Fixpoint nF (l : list num) : nat := match l with [] => O | NI _ :: r => nF r | NF _ :: r => S (nF r) end.

(* the exact total P of the leading ints, then the first float x and the rest r (if any) *)
Fixpoint lead (i : Z) (l : list num) : Z * option (pfloat * list num) :=
  match l with [] => (i, None) | NI b :: r => lead (i + b) r | NF x :: r => (i, Some (x, r)) end.

Lemma sum_int_lead : forall (l : list num) (i : Z),
  sum_int i l = match lead i l with
                | (P, None) => NI P
                | (P, Some (x, r)) => NF (gsum (f_of_Z P) zero ((false, x) :: map tag r))
                end.
Proof.
  induction l as [|[b|x] r IH]; intro i; [reflexivity|apply IH|].
  cbn [sum_int lead gsum]. rewrite sum_float_gsum. reflexivity.
Qed.

Lemma tag_facts : forall r : list num, Forall item_ok r ->
  map FR (vals (map tag r)) = map nval r /\ cnt true (map tag r) = nF r /\ cnt false (map tag r) = nI r
  /\ length (map tag r) = length r.
Proof.
  induction r as [|[z|x] r IH]; intro H; [repeat split; reflexivity| |]; inversion H as [|? ? H1 Hr]; subst;
    destruct (IH Hr) as (E1 & E2 & E3 & E4); cbn [map tag vals snd cnt Bool.eqb nF nI length Nat.add] in *;
    fold (vals (map tag r)); rewrite E1, E2, E3, E4; repeat split; reflexivity.
Qed.
Lemma tag_abs : forall r : list num,
  sumR (map (fun x => Rabs (FR x)) (vals (map tag r))) = sumR (map nabs r).
Proof.
  induction r as [|[z|x] r IH]; [reflexivity| |]; cbn [map tag vals snd sumR fold_right]; fold (vals (map tag r));
    fold (sumR (map (fun x0 => Rabs (FR x0)) (vals (map tag r)))); fold (sumR (map nabs r)); rewrite IH; reflexivity.
Qed.

Lemma lead_facts : forall (l : list num) (i : Z), small i -> int_prefix_ok i l -> Forall item_ok l ->
  match lead i l with
  | (P, None) => small P /\ IZR P = IZR i + sumR (map nval l)
  | (P, Some (x, r)) =>
      small P /\ ffin x /\ Forall item_ok r
      /\ IZR P + (FR x + sumR (map nval r)) = IZR i + sumR (map nval l)
      /\ Rabs (IZR P) + (Rabs (FR x) + sumR (map nabs r)) <= Rabs (IZR i) + sumR (map nabs l)
      /\ (S (length r) <= length l)%nat /\ (nF r <= nF l)%nat /\ (nI r <= nI l)%nat
  end.
Proof.
  induction l as [|[b|x] r IH]; intros i Hi Hok Hl.
  - cbn. split; [exact Hi|lra].
  - inversion Hl as [|? ? Hb Hr]; subst. cbn [int_prefix_ok] in Hok. destruct Hok as (_ & Hib & Hok).
    specialize (IH (i + b)%Z Hib Hok Hr). cbn [lead map sumR fold_right nF nI length].
    fold (sumR (map nval r)). fold (sumR (map nabs r)).
    assert (Ev : nval (NI b) = IZR b) by (unfold nval; apply to_f_NI; exact Hb).
    assert (Ea : nabs (NI b) = Rabs (IZR b)) by (unfold nabs; rewrite Ev; reflexivity).
    rewrite Ev, Ea. rewrite plus_IZR in IH.
    destruct (lead (i + b) r) as [P [[x r']|]].
    + destruct IH as (H1 & H2 & H3 & H4 & H5 & H6 & H7 & H8). repeat split; try assumption; try lia; try lra.
      pose proof (Rabs_triang (IZR i) (IZR b)). lra.
    + destruct IH as (H1 & H2). split; [exact H1|lra].
  - inversion Hl as [|? ? Hx Hr]; subst. cbn [lead map sumR fold_right nF nI length].
    fold (sumR (map nval r)). fold (sumR (map nabs r)).
    change (nval (NF x)) with (FR x). change (nabs (NF x)) with (Rabs (FR x)).
    split; [exact Hi|]. split; [exact Hx|]. split; [exact Hr|]. split; [reflexivity|]. split; [apply Rle_refl|].
    split; [lia|]. split; lia.
Qed.

(* every intermediate float of sum(l) is finite (executable) *)
Definition msum_fin (l : list num) : bool :=
  match lead 0 l with
  | (_, None) => true
  | (P, Some (x, r)) =>
      let f0 := f_of_Z P in let items := (false, x) :: map tag r in
      (forallb pfin (scan_states padd f0 (vals items)) && forallb pfin (scan_states padd zero (gcomps f0 items))
       && pfin (gsum f0 zero items))%bool
  end.

Definition msum_bound (l : list num) : R :=
  gsum_bound (length l) (nF l) (S (nI l)) (Rabs (sumR (map nval l))) (sumR (map nabs l)).

Lemma nabs_sum_nonneg (l : list num) : 0 <= sumR (map nabs l).
Proof. induction l as [|a l IH]; cbn; [lra|]. unfold nabs at 1. pose proof (Rabs_pos (nval a)). fold (sumR (map nabs l)). lra. Qed.

Theorem mixed_pysum_error (l : list num) :
  int_prefix_ok 0 l -> Forall item_ok l -> msum_fin l = true ->
  Rabs (FR (to_f (npysum l)) - sumR (map nval l)) <= msum_bound l.
Proof.
  intros Hok Hl Hfin. unfold npysum, msum_fin in *. rewrite sum_int_lead.
  pose proof (lead_facts l 0%Z small_0 Hok Hl) as L. pose proof u53_pos as U.
  assert (Hb0 : 0 <= msum_bound l).
  { unfold msum_bound, gsum_bound. pose proof (pow1u_ge1 (length l)) as G. pose proof (nabs_sum_nonneg l) as T0.
    pose proof (pos_INR (nF l)) as P1. pose proof (pos_INR (S (nI l))) as P2.
    assert (0 <= u53 * Rabs (sumR (map nval l))) by (apply Rmult_le_pos; [lra|apply Rabs_pos]).
    assert (0 <= u53 * (INR (nF l) * (1 + u53) ^ length l) * sumR (map nabs l)).
    { apply Rmult_le_pos; [apply Rmult_le_pos; [lra|apply Rmult_le_pos; lra]|exact T0]. }
    assert (0 <= u53 * (INR (S (nI l)) * (1 + u53) ^ length l) * sumR (map nabs l)).
    { apply Rmult_le_pos; [apply Rmult_le_pos; [lra|apply Rmult_le_pos; lra]|exact T0]. }
    assert (0 <= ((1 + u53) ^ length l - 1) * (u53 * (INR (nF l) * (1 + u53) ^ length l) * sumR (map nabs l))).
    { apply Rmult_le_pos; lra. }
    assert (0 <= (1 + u53) * (((1 + u53) ^ length l - 1) * (u53 * (INR (nF l) * (1 + u53) ^ length l) * sumR (map nabs l))
                               + u53 * (INR (S (nI l)) * (1 + u53) ^ length l) * sumR (map nabs l))).
    { apply Rmult_le_pos; lra. }
    lra. }
  destruct (lead 0 l) as [P [[x r]|]].
  - destruct L as (HP & Fx & Hr & ES & EA & Hlen & HnF & HnI). cbv zeta in Hfin.
    apply andb_prop in Hfin. destruct Hfin as (Hfin & F3). apply andb_prop in Hfin. destruct Hfin as (F1 & F2).
    apply forallb_ffin in F1, F2. destruct (f_of_Z_small P HP) as (FP & EP).
    pose proof (gsum_error (f_of_Z P) ((false, x) :: map tag r) FP F1 F2 F3) as B.
    destruct (tag_facts r Hr) as (T1 & T2 & T3 & T4).
    cbn [vals map snd sumR fold_right length cnt Bool.eqb Nat.add] in B. fold (vals (map tag r)) in B.
    fold (sumR (map FR (vals (map tag r)))) in B. fold (sumR (map (fun x0 => Rabs (FR x0)) (vals (map tag r)))) in B.
    rewrite T1, T2, T3, T4, tag_abs, EP in B. cbn [to_f]. rewrite Rplus_0_l in ES. rewrite Rabs_R0, Rplus_0_l in EA.
    rewrite ES in B. eapply Rle_trans; [exact B|]. unfold msum_bound.
    apply gsum_bound_mono; try lia; try lra.
    pose proof (Rabs_pos (IZR P)). pose proof (Rabs_pos (FR x)). pose proof (nabs_sum_nonneg r). lra.
  - destruct L as (HP & ES). cbn [to_f]. rewrite (proj2 (f_of_Z_small P HP)), ES. cbn [IZR]. rewrite Rplus_0_l.
    replace (sumR (map nval l) - sumR (map nval l)) with 0 by ring. rewrite Rabs_R0. exact Hb0.
Qed.

(* ================= second pass, for an arbitrary finite mean m with |m - mu| <= em ================= *)
Definition fvar_bound_em (Rr em : R) (xs : list R) : R :=
  let N := INR (length xs) in
  let w := fitem_bound Rr em in
  let T2 := sqdev (meanR xs) xs + N * w in
  (N * w + pysum_bound (length xs - 1) T2 T2) / N * (1 + u53) + u53 * (sqdev (meanR xs) xs / N) + eta64.

Lemma second_pass_error (h : hints) (fl : list pfloat) (m : pfloat) (lo hi Rr em : R) :
  fl <> [] -> Forall ffin fl -> Forall (fun x => lo <= FR x <= hi) fl -> hi - lo <= Rr ->
  (Z.of_nat (length fl) < 2 ^ 53)%Z -> ffin m -> Rabs (FR m - meanR (map FR fl)) <= em ->
  forallb (fun v => pfin ((v - m) * (v - m))%float) fl = true ->
  forallb pfin (fsq h (zlen fl) m 0%Z fl) = true -> pysum_fin (fsq h (zlen fl) m 0%Z fl) = true ->
  ffin (pysum_f (fsq h (zlen fl) m 0%Z fl) / f_of_Z (zlen fl))%float ->
  Rabs (FR (pysum_f (fsq h (zlen fl) m 0%Z fl) / f_of_Z (zlen fl))%float - popvarR (map FR fl))
  <= fvar_bound_em Rr em (map FR fl).
Proof.
  intros Hne Hl Hrg HR Hb H2 EM H3 H4 H5 H6.
  destruct (count_exact fl Hne Hb) as (Fk & Ek & Hn).
  assert (Hrg' : Forall (fun x => lo <= x <= hi) (map FR fl)) by (rewrite Forall_map; exact Hrg).
  assert (Hne' : map FR fl <> []) by (destruct fl; [congruence|discriminate]).
  pose proof (meanR_range lo hi (map FR fl) Hne' Hrg') as Rmu.
  set (mu := meanR (map FR fl)) in *.
  set (w := fitem_bound Rr em). set (qs := fsq h (zlen fl) m 0%Z fl) in *.
  pose proof u53_pos as U. pose proof u53_small as U5. pose proof eta64_pos as He.
  assert (It : Forall2 (fun v q => Rabs (FR q - (FR v - mu) * (FR v - mu)) <= w) fl qs).
  { apply (fsq_items h (zlen fl) m (fun v => (FR v - mu) * (FR v - mu)) w (fun v => ffin v /\ lo <= FR v <= hi));
      try assumption.
    - intros i v (Fv & Rv) Fdd Fq. destruct (mul_fin_inv _ _ Fdd) as (Fd & _).
      pose proof (sub_bwd v m Fv H2 Fd) as Ed.
      destruct (RND_diff_err (FR v) (FR m) (F64_FR v) (F64_FR m)) as (e1 & B1 & E1). rewrite <- Ed in E1.
      pose proof (fpow2_err h (zlen fl) i (v - m)%float Fdd Fq) as Q. rewrite E1 in Q.
      apply (item_err u53 eta64 (FR v) (FR m) mu Rr em e1); try assumption. apply Rabs_le. lra.
    - apply Forall_forall. intros v Hv. split; [exact (proj1 (Forall_forall _ _) Hl v Hv)|].
      exact (proj1 (Forall_forall _ _) Hrg v Hv). }
  pose proof (Forall2_len _ _ _ It) as Hlen.
  destruct (sum_err_items _ w fl qs It) as (S1 & S2).
  assert (Hg : forall v : pfloat, 0 <= (FR v - mu) * (FR v - mu)).
  { intro v. pose proof (Rle_0_sqr (FR v - mu)) as Q. unfold Rsqr in Q. exact Q. }
  specialize (S2 Hg).
  assert (Esq : sumR (map (fun v : pfloat => (FR v - mu) * (FR v - mu)) fl) = sqdev mu (map FR fl)).
  { unfold sqdev. rewrite map_map. reflexivity. }
  rewrite Esq in S1, S2. set (sq := sqdev mu (map FR fl)) in *.
  assert (Hsq : 0 <= sq) by apply sqdev_nonneg.
  set (N := INR (length fl)) in *.
  assert (Hqne : qs <> []) by (intro E; rewrite E in Hlen; destruct fl; [congruence|discriminate]).
  destruct (pysum_error qs Hqne (forallb_ffin _ H4) H5) as (Fs2 & B2).
  rewrite <- Hlen in B2.
  assert (A1 : Rabs (sumR (map FR qs)) <= sq + N * w).
  { replace (sumR (map FR qs)) with ((sumR (map FR qs) - sq) + sq) by ring.
    eapply Rle_trans; [apply Rabs_triang|]. rewrite (Rabs_pos_eq sq) by exact Hsq. lra. }
  pose proof (pysum_bound_mono (length fl - 1) _ (sq + N * w) _ (sq + N * w) A1 S2) as M2.
  assert (F2 : Rabs (FR (pysum_f qs) - sq) <= N * w + pysum_bound (length fl - 1) (sq + N * w) (sq + N * w)).
  { replace (FR (pysum_f qs) - sq) with ((FR (pysum_f qs) - sumR (map FR qs)) + (sumR (map FR qs) - sq)) by ring.
    eapply Rle_trans; [apply Rabs_triang|]. lra. }
  destruct (div_finite_error (pysum_f qs) (f_of_Z (zlen fl)) Fs2 Fk) as (e & hh & Be & Bh & Eq); [rewrite Ek; lra|exact H6|].
  rewrite Ek in Eq. unfold fvar_bound_em, popvarR. cbv zeta. rewrite !map_length.
  fold mu. fold w. fold sq. fold N.
  apply (out_bound u53 eta64 (FR (pysum_f qs)) sq _ N e hh); assumption.
Qed.

(* ================= the two-pass variance of a mixed list ================= *)
Definition mmean (l : list num) : pfloat := (to_f (npysum l) / f_of_Z (zlen l))%float.
Definition mpopvar (h : hints) (l : list num) : pfloat :=
  (pysum_f (fsq h (zlen l) (mmean l) 0%Z (map to_f l)) / f_of_Z (zlen l))%float.

Lemma first_pass_id (h : hints) (l : list num) : Forall item_ok l ->
  map (fun v => pow1 (FA h) (sub (FA h) v (of_int (FA h) 0))) l = l.
Proof.
  induction 1 as [|[z|x] r Hv Hr IH]; [reflexivity| |]; cbn [map]; rewrite IH; f_equal; cbn [pow1 sub of_int FA nsub]; unfold npow1.
  - rewrite Z.sub_0_r. reflexivity.
  - cbn [to_f]. rewrite f_of_Z_zero, (sub_zero_id x Hv). reflexivity.
Qed.

Lemma mfvar_out_form (h : hints) (l : list num) : l <> [] -> Forall item_ok l ->
  fvar_out (FA h) l = NF (mpopvar h l).
Proof.
  intros Hne Hl. unfold fvar_out. change (T (FA h)) with num in *.
  destruct (zlen l =? 0)%Z eqn:E.
  - apply Z.eqb_eq in E. unfold zlen in E. destruct l; [congruence|cbn [length] in E; lia].
  - assert (Em : moment1 (FA h) l = NF (mmean l)).
    { unfold moment1. rewrite (first_pass_id h l Hl). reflexivity. }
    rewrite Em.
    assert (Eq2 : mapi_from (fun i v => pow2 (FA h) (zlen l) i (sub (FA h) v (NF (mmean l)))) 0%Z l
                  = map NF (fsq h (zlen l) (mmean l) 0%Z (map to_f l))).
    { rewrite <- (second_pass_items h (zlen l) (mmean l) l 0%Z), to_fl_map. apply mapi_NF. }
    transitivity (ndiv (npysum (mapi_from (fun i v => pow2 (FA h) (zlen l) i (sub (FA h) v (NF (mmean l)))) 0%Z l))
                       (NI (zlen l))); [reflexivity|].
    rewrite Eq2. unfold ndiv, mpopvar. rewrite npysum_to_f. reflexivity.
Qed.

(* every intermediate float of the two-pass variance of the mixed list l is finite (executable) *)
Definition mfvar_fin (h : hints) (l : list num) : bool :=
  let m := mmean l in
  let fl := map to_f l in
  let qs := fsq h (zlen l) m 0%Z fl in
  (msum_fin l && pfin m && forallb (fun v => pfin ((v - m) * (v - m))%float) fl
   && forallb pfin qs && pysum_fin qs && pfin (mpopvar h l))%bool.
Definition mfstd_fin (h : hints) (l : list num) : bool := (mfvar_fin h l && pfin (fsqrt (mpopvar h l)))%bool.

(* |m - mu| for the mixed first pass *)
Definition mmean_bound (l : list num) : R :=
  msum_bound l / INR (length l) * (1 + u53) + u53 * Rabs (meanR (map nval l)) + eta64.

Lemma mcount_exact (l : list num) : l <> [] -> (Z.of_nat (length l) < 2 ^ 53)%Z ->
  ffin (f_of_Z (zlen l)) /\ FR (f_of_Z (zlen l)) = INR (length l) /\ 0 < INR (length l).
Proof.
  intros Hne Hb. destruct (f_of_Z_exact (zlen l)) as (Fk & Ek); [unfold zlen; lia|].
  split; [exact Fk|]. split; [rewrite Ek; unfold zlen; symmetry; apply INR_IZR_INZ|].
  apply lt_0_INR. destruct l; [congruence|cbn; lia].
Qed.

Lemma mmean_error (l : list num) :
  l <> [] -> (Z.of_nat (length l) < 2 ^ 53)%Z -> int_prefix_ok 0 l -> Forall item_ok l ->
  msum_fin l = true -> ffin (mmean l) ->
  Rabs (FR (mmean l) - meanR (map nval l)) <= mmean_bound l.
Proof.
  intros Hne Hb Hok Hl Hfin Fm. destruct (mcount_exact l Hne Hb) as (Fk & Ek & Hn).
  pose proof (mixed_pysum_error l Hok Hl Hfin) as B. unfold mmean in *.
  assert (Fs : ffin (to_f (npysum l))).
  { apply (div_fin_inv _ (f_of_Z (zlen l))); [exact Fk|rewrite Ek; lra|exact Fm]. }
  destruct (div_finite_error (to_f (npysum l)) (f_of_Z (zlen l)) Fs Fk) as (e & hh & Be & Bh & Eq); [rewrite Ek; lra|exact Fm|].
  rewrite Ek in Eq. unfold mmean_bound, meanR. rewrite !map_length.
  apply (div_err_bound u53 eta64 (FR (to_f (npysum l))) (sumR (map nval l)) _ (INR (length l)) e hh); try assumption.
  apply u53_pos.
Qed.

Lemma items_converted (l : list num) : Forall item_ok l -> Forall ffin (map to_f l).
Proof.
  induction 1 as [|[z|x] r Hv Hr IH]; [constructor| |]; cbn [map]; constructor; try assumption.
  apply f_of_Z_small. exact Hv.
Qed.

Theorem mixed_fpopvar_error (h : hints) (l : list num) (lo hi Rr : R) :
  l <> [] -> int_prefix_ok 0 l -> Forall item_ok l -> Forall (fun n => lo <= nval n <= hi) l -> hi - lo <= Rr ->
  (Z.of_nat (length l) < 2 ^ 53)%Z -> mfvar_fin h l = true ->
  ffin (mpopvar h l)
  /\ Rabs (FR (mpopvar h l) - popvarR (map nval l)) <= fvar_bound_em Rr (mmean_bound l) (map nval l).
Proof.
  intros Hne Hok Hl Hrg HR Hb Hfin. unfold mfvar_fin in Hfin. cbv zeta in Hfin.
  apply andb_prop in Hfin. destruct Hfin as (Hfin & H6). apply andb_prop in Hfin. destruct Hfin as (Hfin & H5).
  apply andb_prop in Hfin. destruct Hfin as (Hfin & H4). apply andb_prop in Hfin. destruct Hfin as (Hfin & H3).
  apply andb_prop in Hfin. destruct Hfin as (H1 & H2).
  split; [exact H6|].
  pose proof (mmean_error l Hne Hb Hok Hl H1 H2) as EM.
  assert (Ev : map FR (map to_f l) = map nval l) by (rewrite map_map; reflexivity).
  assert (Ez : zlen (map to_f l) = zlen l) by apply zlen_map.
  pose proof (second_pass_error h (map to_f l) (mmean l) lo hi Rr (mmean_bound l)) as SP.
  rewrite Ev, Ez, map_length in SP. unfold mpopvar. apply SP; try assumption.
  - destruct l; [congruence|discriminate].
  - apply items_converted. exact Hl.
  - rewrite Forall_map. exact Hrg.
Qed.

Lemma mstd_out (h : hints) (l : list num) (lo hi Rr : R) :
  l <> [] -> int_prefix_ok 0 l -> Forall item_ok l -> Forall (fun n => lo <= nval n <= hi) l -> hi - lo <= Rr ->
  (Z.of_nat (length l) < 2 ^ 53)%Z -> mfstd_fin h l = true ->
  ffin (fsqrt (mpopvar h l)) /\ 0 <= FR (fsqrt (mpopvar h l)) /\
  Rabs (FR (fsqrt (mpopvar h l)) - rsqrt (popvarR (map nval l)))
  <= rsqrt (fvar_bound_em Rr (mmean_bound l) (map nval l)) * (1 + u53) + u53 * rsqrt (popvarR (map nval l)).
Proof.
  intros Hne Hok Hl Hrg HR Hb Hfin. unfold mfstd_fin in Hfin. apply andb_prop in Hfin. destruct Hfin as (Hv & Hs).
  destruct (mixed_fpopvar_error h l lo hi Rr Hne Hok Hl Hrg HR Hb Hv) as (Ff & B).
  apply sqrt_out_err; try assumption.
  - apply sqrt_fin_nonneg; assumption.
  - apply popvarR_nonneg. destruct l; [congruence|discriminate].
Qed.

Lemma prefix_hyps (l : list num) (lo hi : R) (k : nat) :
  int_prefix_ok 0 l -> Forall item_ok l -> Forall (fun n => lo <= nval n <= hi) l ->
  int_prefix_ok 0 (firstn k l) /\ Forall item_ok (firstn k l) /\ Forall (fun n => lo <= nval n <= hi) (firstn k l).
Proof. intros H1 H2 H3. split; [apply int_prefix_firstn; exact H1|]. split; apply Forall_firstn; assumption. Qed.

(* ================= the theorems =================
   l: a list of Python ints (NI z) and floats (NF x); nval n = the real value of float(n).
   Side conditions: item_ok (every int below 2^53 in magnitude, every float finite), int_prefix_ok 0 l (the partial
   sums of the leading ints below 2^53), all values in [lo, hi] with hi - lo <= Rr, fewer than 2^53 items,
   mfvar_fin h l (every intermediate float finite; executable).
     msum_bound l   = gsum_bound n nF (nI + 1) |S| T     first-pass sum: n = length, nF / nI = number of float / int items
     mmean_bound l  = msum_bound l / n (1+u) + u |mu| + eta
     fvar_bound_em Rr em xs = the bound of FormalVarianceErrorProofs.v with the mean error em *)

Theorem mixed_fvariance_reduce_error (h : hints) (l : list num) (lo hi Rr : R) :
  l <> [] -> int_prefix_ok 0 l -> Forall item_ok l -> Forall (fun n => lo <= nval n <= hi) l -> hi - lo <= Rr ->
  (Z.of_nat (length l) < 2 ^ 53)%Z -> mfvar_fin h l = true ->
  exists f, fvariance_run (FA h) true l = [NF f] /\ ffin f /\
    Rabs (FR f - popvarR (map nval l)) <= fvar_bound_em Rr (mmean_bound l) (map nval l).
Proof.
  intros Hne Hok Hl Hrg HR Hb Hfin. exists (mpopvar h l).
  rewrite fvariance_run_reduce, (mfvar_out_form h l Hne Hl). split; [reflexivity|].
  apply (mixed_fpopvar_error h l lo hi Rr); assumption.
Qed.

Theorem mixed_fvariance_stream_error (h : hints) (l : list num) (lo hi Rr : R) :
  int_prefix_ok 0 l -> Forall item_ok l -> Forall (fun n => lo <= nval n <= hi) l -> hi - lo <= Rr ->
  (Z.of_nat (length l) < 2 ^ 53)%Z ->
  Forall (fun k => mfvar_fin h (firstn k l) = true) (seq 1 (length l)) ->
  Forall2 (fun (v : num) (k : nat) =>
             exists f, v = NF f /\ ffin f /\
               Rabs (FR f - popvarR (map nval (firstn k l)))
               <= fvar_bound_em Rr (mmean_bound (firstn k l)) (map nval (firstn k l)))
          (fvariance_run (FA h) false l) (seq 1 (length l)).
Proof.
  intros Hok Hl Hrg HR Hb Hfin. rewrite fvariance_run_stream.
  apply Forall2_map_self. intros k Hk. pose proof (proj1 (Forall_forall _ _) Hfin k Hk) as Fk.
  apply in_seq in Hk.
  assert (Hne : l <> []) by (destruct l; [cbn in Hk; lia|discriminate]).
  assert (Hlen : length (firstn k l) = k) by (apply firstn_length_le; lia).
  destruct (prefix_hyps l lo hi k Hok Hl Hrg) as (P1 & P2 & P3).
  assert (Hnek : firstn k l <> []) by (apply firstn_ne; [lia|exact Hne]).
  exists (mpopvar h (firstn k l)). split; [exact (mfvar_out_form h (firstn k l) Hnek P2)|].
  apply (mixed_fpopvar_error h (firstn k l) lo hi Rr); try assumption. rewrite Hlen. lia.
Qed.

Theorem mixed_fstddev_reduce_error (h : hints) (l : list num) (lo hi Rr : R) :
  l <> [] -> int_prefix_ok 0 l -> Forall item_ok l -> Forall (fun n => lo <= nval n <= hi) l -> hi - lo <= Rr ->
  (Z.of_nat (length l) < 2 ^ 53)%Z -> mfstd_fin h l = true ->
  exists g, fstddev_run (FA h) true l = [NF g] /\ ffin g /\ 0 <= FR g /\
    Rabs (FR g - rsqrt (popvarR (map nval l)))
    <= rsqrt (fvar_bound_em Rr (mmean_bound l) (map nval l)) * (1 + u53) + u53 * rsqrt (popvarR (map nval l)).
Proof.
  intros Hne Hok Hl Hrg HR Hb Hfin. exists (fsqrt (mpopvar h l)).
  unfold fstddev_run. rewrite fvariance_run_reduce, (mfvar_out_form h l Hne Hl). split; [reflexivity|].
  apply (mstd_out h l lo hi Rr); assumption.
Qed.

Theorem mixed_fstddev_stream_error (h : hints) (l : list num) (lo hi Rr : R) :
  int_prefix_ok 0 l -> Forall item_ok l -> Forall (fun n => lo <= nval n <= hi) l -> hi - lo <= Rr ->
  (Z.of_nat (length l) < 2 ^ 53)%Z ->
  Forall (fun k => mfstd_fin h (firstn k l) = true) (seq 1 (length l)) ->
  Forall2 (fun (v : num) (k : nat) =>
             exists g, v = NF g /\ ffin g /\ 0 <= FR g /\
               Rabs (FR g - rsqrt (popvarR (map nval (firstn k l))))
               <= rsqrt (fvar_bound_em Rr (mmean_bound (firstn k l)) (map nval (firstn k l))) * (1 + u53)
                  + u53 * rsqrt (popvarR (map nval (firstn k l))))
          (fstddev_run (FA h) false l) (seq 1 (length l)).
Proof.
  intros Hok Hl Hrg HR Hb Hfin. unfold fstddev_run. rewrite fvariance_run_stream, map_map.
  apply Forall2_map_self. intros k Hk. pose proof (proj1 (Forall_forall _ _) Hfin k Hk) as Fk.
  apply in_seq in Hk.
  assert (Hne : l <> []) by (destruct l; [cbn in Hk; lia|discriminate]).
  assert (Hlen : length (firstn k l) = k) by (apply firstn_length_le; lia).
  destruct (prefix_hyps l lo hi k Hok Hl Hrg) as (P1 & P2 & P3).
  assert (Hnek : firstn k l <> []) by (apply firstn_ne; [lia|exact Hne]).
  exists (fsqrt (mpopvar h (firstn k l))).
  split; [cbv beta; change (T (FA h)) with num; rewrite (mfvar_out_form h (firstn k l) Hnek P2); reflexivity|].
  apply (mstd_out h (firstn k l) lo hi Rr); try assumption. rewrite Hlen. lia.
Qed.

(* the hypotheses hold on witness_after of MixedFormalProofs.v (an int after floats: 2^52, 2^52, int 2^52+1, 2^52+2);
   witness_before does not qualify: its two leading ints sum to 2^53 + 2 *)
Example witness_after_hyps :
  int_prefix_ok 0 witness_after /\ Forall item_ok witness_after /\ mfstd_fin [] witness_after = true
  /\ forallb (fun k => mfstd_fin [] (firstn k witness_after)) (seq 1 (length witness_after)) = true.
Proof.
  split; [exact I|]. split; [|split; vm_compute; reflexivity].
  repeat constructor; cbn [item_ok]; unfold small; vm_compute; reflexivity.
Qed.
(* leading ints, then floats and ints interleaved *)
Definition mixed_example : list num := [NI 3; NI (-5); NF 0.5%float; NI 7; NF 2.25%float; NI 0].
Example mixed_example_hyps :
  int_prefix_ok 0 mixed_example /\ Forall item_ok mixed_example /\ mfstd_fin [] mixed_example = true
  /\ forallb (fun k => mfstd_fin [] (firstn k mixed_example)) (seq 1 (length mixed_example)) = true.
Proof.
  split; [unfold mixed_example; cbn [int_prefix_ok]; repeat split; unfold small; vm_compute; reflexivity|].
  split; [|split; vm_compute; reflexivity].
  repeat constructor; cbn [item_ok]; unfold small; vm_compute; reflexivity.
Qed.
