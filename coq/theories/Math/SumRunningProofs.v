(* C12, floating point: Higham's bound for EVERY streaming value of `sum` (the running sum after the i-th item
   against the exact sum of the first i items). *)
From Coq Require Import List ZArith Reals Lra Lia Floats.
From Flocq Require Import Core BinarySingleNaN PrimFloat.
From RxVerif Require Import Math.Exact Math.FloatModel Math.SumErrorProofs Math.MeanErrorProofs.
Import ListNotations.
Open Scope R_scope.

Lemma scan_states_padd_prefix : forall (l : list pfloat) (acc : pfloat),
  scan_states padd acc l = map (fun i => fold_left padd (firstn i l) acc) (seq 1 (length l)).
Proof.
  induction l as [|x r IH]; intros acc; [reflexivity|].
  cbn [scan_states length seq map firstn fold_left]. f_equal.
  rewrite IH. rewrite <- (seq_shift (length r) 1). rewrite map_map. reflexivity.
Qed.

Theorem float_sum_running_error (h : hints) (l : list pfloat) :
  Forall ffin l -> Forall ffin (scan_states padd zero l) ->
  Forall2 (fun (v : num) (i : nat) =>
             exists s, v = NF s
               /\ Rabs (FR s - sumR (map FR (firstn i l)))
                  <= ((1 + u53) ^ i - 1) * sumR (map (fun x => Rabs (FR x)) (firstn i l)))
          (sum_run (FA h) false (map NF l)) (seq 1 (length l)).
Proof.
  intros Hl Hs. unfold sum_run, scan_run. cbn [fzero FA]. rewrite sum_states_float, scan_states_padd_prefix.
  assert (G : forall idx : list nat, Forall (fun i => i <= length l)%nat idx ->
     Forall2 (fun (v : num) (i : nat) =>
             exists s, v = NF s
               /\ Rabs (FR s - sumR (map FR (firstn i l)))
                  <= ((1 + u53) ^ i - 1) * sumR (map (fun x => Rabs (FR x)) (firstn i l)))
       (map NF (map (fun i => fold_left padd (firstn i l) zero) idx)) idx).
  { induction idx as [|i idx IH]; intros Hr; [constructor|]. inversion Hr as [|? ? Hi Hr']; subst.
    cbn [map]. constructor; [|apply IH; exact Hr'].
    exists (fold_left padd (firstn i l) zero). split; [reflexivity|].
    pose proof (fsum_error (firstn i l) zero eq_refl) as B.
    rewrite firstn_length_le in B by exact Hi.
    rewrite FR_zero, Rabs_R0 in B.
    replace (0 + sumR (map FR (firstn i l))) with (sumR (map FR (firstn i l))) in B by ring.
    replace (0 + sumR (map (fun x => Rabs (FR x)) (firstn i l))) with (sumR (map (fun x => Rabs (FR x)) (firstn i l))) in B by ring.
    apply B; [apply Forall_firstn; exact Hl|]. rewrite scan_states_firstn. apply Forall_firstn. exact Hs. }
  apply G. apply Forall_forall. intros i Hi. apply in_seq in Hi. lia.
Qed.
