(* C12, floating point, the Welford variance / stddev of the model (the functions the correspondence evaluates):
   (1) a sequence of equal finite items has variance and stddev EXACTLY zero in binary64, at every streaming
       position and at completion, whatever the common value (no cancellation residue for large offsets);
   (2) for every arithmetic, fewer than two items give the float literal 0.0. *)
From Coq Require Import List ZArith Reals Lra Lia Floats.
From Flocq Require Import Core BinarySingleNaN PrimFloat.
From RxVerif Require Import Math.Exact Math.FloatModel Math.SumErrorProofs Math.MeanErrorProofs Math.FloatOpsProofs.
Import ListNotations.
Open Scope R_scope.

(* (2) *)
Lemma variance_lt2_any (A : arith) (reduce : bool) (xs : list (T A)) : (length xs < 2)%nat ->
  Forall (fun v => v = fzero A) (variance_run A reduce xs).
Proof.
  intro H. destruct xs as [|x [|y r]]; [| |cbn [length] in H; lia]; destruct reduce; cbn; repeat constructor.
Qed.

(* (1) *)
Lemma Rminus_same (r : R) : r - r = 0.
Proof. ring. Qed.
Definition zero_f (n : num) : Prop := ffin (to_f n) /\ FR (to_f n) = 0.
Definition cinv (c : pfloat) (st : wstate (FA [])) : Prop :=
  let '(mo, s, k) := st in
  exists m, mo = Some (NF m) /\ ffin m /\ FR m = FR c /\ zero_f s /\ (1 <= k)%Z.

Lemma zero_f_NI0 : zero_f (NI 0).
Proof. split; [reflexivity|]. cbn [to_f]. rewrite f_of_Z_zero. apply FR_zero. Qed.

Lemma cstep (h : hints) (c x : pfloat) (mo : option num) (s : num) (k : Z) :
  cinv c (mo, s, k) -> ffin x -> FR x = FR c -> (k + 1 < 2 ^ 53)%Z ->
  cinv c (wstep (FA h) (mo, s, k) (NF x)).
Proof.
  intros (m & -> & Fm & Em & (Fs & Es) & Hk) Fx Ex Hb.
  cbn [wstep add sub mul div of_int FA nadd nsub nmul ndiv to_f].
  destruct (f_of_Z_exact (k + 1)) as (Fk & Ek); [lia|].
  assert (Hk0 : FR (f_of_Z (k + 1)) <> 0) by (rewrite Ek; apply not_0_IZR; lia).
  (* d0 = x - m = 0 *)
  destruct (sub_fwd x m Fx Fm) as (Fd0 & Ed0); [rewrite Ex, Em, Rminus_same; apply in_range_0|].
  rewrite Ex, Em, Rminus_same, RND_0 in Ed0.
  (* q = d0 / k = 0 *)
  destruct (div_fwd (x - m)%float (f_of_Z (k + 1)) Fd0 Fk Hk0) as (Fq & Eq).
  { rewrite Ed0. unfold Rdiv. rewrite Rmult_0_l. apply in_range_0. }
  rewrite Ed0 in Eq. unfold Rdiv in Eq. rewrite Rmult_0_l, RND_0 in Eq.
  (* m' = m + q = m *)
  destruct (add_fwd m ((x - m) / f_of_Z (k + 1))%float Fm Fq) as (Fm' & Em').
  { rewrite Eq, Rplus_0_r. apply in_range_FR. exact Fm. }
  rewrite Eq, Rplus_0_r, RND_FR in Em'.
  (* d1 = x - m' = 0 *)
  destruct (sub_fwd x (m + (x - m) / f_of_Z (k + 1))%float Fx Fm') as (Fd1 & Ed1).
  { rewrite Ex, Em', Em, Rminus_same. apply in_range_0. }
  rewrite Ex, Em', Em, Rminus_same, RND_0 in Ed1.
  (* p = d0 * d1 = 0 *)
  destruct (mul_fwd (x - m)%float (x - (m + (x - m) / f_of_Z (k + 1)))%float Fd0 Fd1) as (Fp & Ep).
  { rewrite Ed0, Rmult_0_l. apply in_range_0. }
  rewrite Ed0, Rmult_0_l, RND_0 in Ep.
  (* s' = s + p = 0 *)
  destruct (add_fwd (to_f s) ((x - m) * (x - (m + (x - m) / f_of_Z (k + 1))))%float Fs Fp) as (Fs' & Es').
  { rewrite Es, Ep, Rplus_0_r. apply in_range_0. }
  rewrite Es, Ep, Rplus_0_r, RND_0 in Es'.
  exists (m + (x - m) / f_of_Z (k + 1))%float. repeat split; try assumption; try lia.
  - rewrite Em'. exact Em.
  - destruct s; exact Fs'.
  - destruct s; exact Es'.
Qed.

Lemma cout (h : hints) (c : pfloat) (mo : option num) (s : num) (k : Z) :
  cinv c (mo, s, k) -> (k < 2 ^ 53)%Z ->
  exists f, wout (FA h) (mo, s, k) = NF f /\ ffin f /\ FR f = 0.
Proof.
  intros (m & -> & Fm & Em & (Fs & Es) & Hk) Hb. cbn [wout fzero div of_int FA ndiv to_f].
  destruct (k <? 2)%Z eqn:E.
  - exists zero. split; [reflexivity|]. split; [reflexivity|apply FR_zero].
  - apply Z.ltb_ge in E. destruct (f_of_Z_exact (k - 1)) as (Fk & Ek); [lia|].
    assert (Hk0 : FR (f_of_Z (k - 1)) <> 0) by (rewrite Ek; apply not_0_IZR; lia).
    destruct (div_fwd (to_f s) (f_of_Z (k - 1)) Fs Fk Hk0) as (Fq & Eq).
    { rewrite Es. unfold Rdiv. rewrite Rmult_0_l. apply in_range_0. }
    rewrite Es in Eq. unfold Rdiv in Eq. rewrite Rmult_0_l, RND_0 in Eq.
    exists (to_f s / f_of_Z (k - 1))%float. auto.
Qed.

Lemma cstates (h : hints) (c : pfloat) : forall (l : list pfloat) (st : wstate (FA h)),
  cinv c st -> Forall (fun x => ffin x /\ FR x = FR c) l -> (snd st + Z.of_nat (length l) < 2 ^ 53)%Z ->
  Forall (cinv c) (scan_states (wstep (FA h)) st (map NF l)) /\ cinv c (fold_left (wstep (FA h)) (map NF l) st)
  /\ Forall (fun st' => (snd st' < 2 ^ 53)%Z) (scan_states (wstep (FA h)) st (map NF l))
  /\ (snd (fold_left (wstep (FA h)) (map NF l) st) < 2 ^ 53)%Z.
Proof.
  induction l as [|x r IH]; intros [[mo s] k] Hi Hl Hb.
  - cbn. repeat split; try constructor; try assumption. cbn in Hb. lia.
  - inversion Hl as [|? ? [Fx Ex] Hr]; subst. cbn [map scan_states fold_left].
    cbn [snd length] in Hb.
    assert (Hi' : cinv c (wstep (FA h) (mo, s, k) (NF x))) by (apply cstep; try assumption; lia).
    assert (Hk' : snd (wstep (FA h) (mo, s, k) (NF x)) = (k + 1)%Z).
    { destruct Hi as (m & -> & _). reflexivity. }
    destruct (IH (wstep (FA h) (mo, s, k) (NF x)) Hi' Hr) as (A1 & A2 & A3 & A4); [rewrite Hk'; lia|].
    repeat split; try assumption; constructor; try assumption. rewrite Hk'. lia.
Qed.

Theorem float_variance_constant (h : hints) (c : pfloat) (l : list pfloat) (reduce : bool) :
  Forall (fun x => ffin x /\ FR x = FR c) l -> (Z.of_nat (length l) < 2 ^ 53)%Z ->
  Forall (fun v => exists f, v = NF f /\ ffin f /\ FR f = 0) (variance_run (FA h) reduce (map NF l)).
Proof.
  intros Hl Hb. destruct l as [|x r].
  - destruct reduce; cbn; repeat constructor; exists zero; repeat split; apply FR_zero.
  - inversion Hl as [|? ? [Fx Ex] Hr]; subst.
    assert (H0 : cinv c (wstep (FA h) (wseed (FA h)) (NF x))).
    { cbn. exists x. split; [reflexivity|]. split; [exact Fx|]. split; [exact Ex|]. split; [apply zero_f_NI0|lia]. }
    assert (Hk : snd (wstep (FA h) (wseed (FA h)) (NF x)) = 1%Z) by reflexivity.
    destruct (cstates h c r _ H0 Hr) as (A1 & A2 & A3 & A4); [rewrite Hk; cbn [length] in Hb; lia|].
    unfold variance_run, scan_run. destruct reduce.
    + cbn [map fold_left]. constructor; [|constructor].
      destruct (fold_left (wstep (FA h)) (map NF r) (wstep (FA h) (wseed (FA h)) (NF x))) as [[mo s] k] eqn:E.
      apply (cout h c mo s k A2). exact A4.
    + cbn [map scan_states]. constructor.
      * destruct (wstep (FA h) (wseed (FA h)) (NF x)) as [[mo s] k] eqn:E. apply (cout h c mo s k H0). cbn in Hk. lia.
      * rewrite Forall_map. apply Forall_forall. intros [[mo s] k] Hin.
        apply (cout h c mo s k).
        -- exact (proj1 (Forall_forall _ _) A1 _ Hin).
        -- exact (proj1 (Forall_forall _ _) A3 _ Hin).
Qed.

(* math.sqrt(0.0) = 0.0 *)
Theorem float_stddev_constant (h : hints) (c : pfloat) (l : list pfloat) (reduce : bool) :
  Forall (fun x => ffin x /\ FR x = FR c) l -> (Z.of_nat (length l) < 2 ^ 53)%Z ->
  Forall (fun v => exists f, v = NF f /\ ffin f /\ FR f = 0) (stddev_run (FA h) reduce (map NF l)).
Proof.
  intros Hl Hb. unfold stddev_run. rewrite Forall_map.
  eapply Forall_impl; [|apply (float_variance_constant h c l reduce Hl Hb)].
  intros v (f & -> & Ff & Ef). cbn [sqrt FA nsqrt to_f].
  destruct (sqrt_fwd f Ff) as (Fq & Eq); [rewrite Ef; lra|].
  exists (Coq.Floats.PrimFloat.sqrt f). split; [reflexivity|]. split; [exact Fq|].
  rewrite Eq, Ef, sqrt_0. apply RND_0.
Qed.
