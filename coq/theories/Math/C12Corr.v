(* Correspondence checker for C12: does the CPython-number instance of the accumulators (FloatModel.FA)
   reproduce, bit for bit, every value rxsci.math emitted?  Executable only. *)
From Coq Require Import List ZArith Bool PrimFloat.
From RxVerif Require Import Base.Corr Math.Exact Math.FloatModel.
Import ListNotations.

Inductive agg := ASum | AMean | AMin | AMax | AVar | AStd | AFVar | AFStd.

(* one run of an operator on the input: reduce flag, every emitted value in order, how the stream ended
   (0 = completed, 1 = on_error(ZeroDivisionError), 2 = anything else) *)
Definition run : Type := bool * list lit * Z.

Inductive c12case :=
| CRaised
| CAgg (a : agg) (h : list (Z * Z * lit)) (xs : list lit) (runs : list run)
| CBoth (c1 c2 : c12case).          (* the two keys of a two-key MuxObservable *)

(* mean: the values emitted before the first ZeroDivisionError, and whether there was one *)
Fixpoint until_raise (l : list (option num)) : list (option num) * Z :=
  match l with
  | [] => ([], 0%Z)
  | None :: _ => ([], 1%Z)
  | Some v :: r => let (o, e) := until_raise r in (Some v :: o, e)
  end.

Definition model_run (a : agg) (h : hints) (reduce : bool) (xs : list num) : list (option num) * Z :=
  let A := FA h in
  match a with
  | ASum => (map Some (sum_run A reduce xs), 0%Z)
  | AMean => until_raise (mean_run A reduce xs)
  | AMin => (min_run A reduce xs, 0%Z)          (* None = Python None (reduce on no item) *)
  | AMax => (max_run A reduce xs, 0%Z)
  | AVar => (map Some (variance_run A reduce xs), 0%Z)
  | AStd => (map Some (stddev_run A reduce xs), 0%Z)
  | AFVar => (map Some (fvariance_run A reduce xs), 0%Z)
  | AFStd => (map Some (fstddev_run A reduce xs), 0%Z)
  end.

Fixpoint outs_eqb (mo : list (option num)) (out : list lit) : bool :=
  match mo, out with
  | [], [] => true
  | o :: mo', l :: out' => out_eqb o l && outs_eqb mo' out'
  | _, _ => false
  end.

Definition hint_of (t : Z * Z * lit) : Z * Z * float :=
  let '(n, i, v) := t in (n, i, to_f (num_of_lit v)).

Definition run_ok (a : agg) (h : hints) (xs : list num) (r : run) : bool :=
  let '(reduce, out, e) := r in
  let (mo, me) := model_run a h reduce xs in
  outs_eqb mo out && (me =? e)%Z.

Fixpoint c12_check (c : c12case) : bool :=
  match c with
  | CRaised => false                      (* the model never raises to the caller on these inputs *)
  | CAgg a h xs runs =>
      let h' := map hint_of h in
      let xs' := map num_of_lit xs in
      forallb (run_ok a h' xs') runs
  | CBoth c1 c2 => c12_check c1 && c12_check c2
  end.
