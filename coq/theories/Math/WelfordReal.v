(* C12, floating point, Welford variance: the part over plain reals.
   (1) the exact mean / sum of squared deviations of a list of reals and the Welford recurrences they satisfy
         mean (l ++ [x]) = mean l + (x - mean l) / (n + 1)
         ssd  (l ++ [x]) = ssd l + (x - mean l) * (x - mean (l ++ [x]))
   (2) the elementary inequalities (hypotheses |d_i| <= u ...) used by the analysis of one binary64 step in
       WelfordErrorProofs.v.  No floating point in this file. *)
From Coq Require Import List ZArith Reals Lra Lia Psatz.
From RxVerif Require Import Math.Exact Math.FloatModel Math.SumErrorProofs.
Import ListNotations.
Open Scope R_scope.

(* exact mean and sum of squared deviations from the mean *)
Definition meanR (l : list R) : R := sumR l / INR (length l).
Definition sqdev (c : R) (l : list R) : R := sumR (map (fun x => (x - c) * (x - c)) l).
Definition ssdR (l : list R) : R := sqdev (meanR l) l.

Lemma sumR_app (a b : list R) : sumR (a ++ b) = sumR a + sumR b.
Proof. induction a as [|x a IH]; simpl; [ring|]. rewrite IH. ring. Qed.

Lemma sqdev_expand (c : R) (l : list R) :
  sqdev c l = sumR (map (fun x => x * x) l) - 2 * c * sumR l + INR (length l) * c * c.
Proof.
  unfold sqdev. induction l as [|a l IH]; [simpl; ring|].
  cbn [map sumR fold_right length]. fold (sumR (map (fun x => (x - c) * (x - c)) l)).
  fold (sumR (map (fun x => x * x) l)). fold (sumR l). rewrite IH, S_INR. ring.
Qed.

Lemma sqdev_nonneg (c : R) (l : list R) : 0 <= sqdev c l.
Proof.
  unfold sqdev. induction l as [|a l IH]; simpl; [lra|].
  pose proof (Rle_0_sqr (a - c)) as H. unfold Rsqr in H.
  change (fold_right Rplus 0 (map (fun x => (x - c) * (x - c)) l)) with (sumR (map (fun x => (x - c) * (x - c)) l)).
  lra.
Qed.

Lemma ssdR_nonneg (l : list R) : 0 <= ssdR l.
Proof. apply sqdev_nonneg. Qed.

Lemma INR_len_pos (l : list R) : (1 <= length l)%nat -> 0 < INR (length l).
Proof. intro H. apply lt_0_INR. lia. Qed.

Lemma meanR_snoc (l : list R) (x : R) : (1 <= length l)%nat ->
  meanR (l ++ [x]) = meanR l + (x - meanR l) / INR (S (length l)).
Proof.
  intro H. pose proof (INR_len_pos l H) as Hn. unfold meanR.
  rewrite sumR_app, app_length. cbn [length sumR fold_right].
  replace (length l + 1)%nat with (S (length l)) by lia. rewrite S_INR. field. lra.
Qed.

Lemma ssdR_snoc (l : list R) (x : R) : (1 <= length l)%nat ->
  ssdR (l ++ [x]) = ssdR l + (x - meanR l) * (x - meanR (l ++ [x])).
Proof.
  intro H. pose proof (INR_len_pos l H) as Hn. unfold ssdR. rewrite !sqdev_expand.
  rewrite (meanR_snoc l x H). rewrite map_app, !sumR_app, app_length. cbn [map length sumR fold_right].
  replace (length l + 1)%nat with (S (length l)) by lia. rewrite S_INR.
  unfold meanR. set (Q := sumR (map (fun y => y * y) l)). set (S0 := sumR l). set (n := INR (length l)) in *.
  field. lra.
Qed.

(* the increment of the sum of squared deviations is non-negative: sigma_k is non-decreasing *)
Lemma ssdR_snoc_le (l : list R) (x : R) : (1 <= length l)%nat -> ssdR l <= ssdR (l ++ [x]).
Proof.
  intro H. pose proof (INR_len_pos l H) as Hn. rewrite (ssdR_snoc l x H), (meanR_snoc l x H).
  set (d := x - meanR l). set (n := INR (length l)) in *. rewrite S_INR. fold n.
  replace (x - (meanR l + d / (n + 1))) with (d * (n / (n + 1))) by (unfold d; field; lra).
  assert (0 <= n / (n + 1)) by (apply Rmult_le_pos; [lra|apply Rlt_le, Rinv_0_lt_compat; lra]).
  pose proof (Rle_0_sqr d) as Hd. unfold Rsqr in Hd.
  assert (0 <= (d * d) * (n / (n + 1))) by (apply Rmult_le_pos; assumption).
  lra.
Qed.

Lemma meanR_one (x : R) : meanR [x] = x.
Proof. unfold meanR. simpl. field. Qed.
Lemma ssdR_one (x : R) : ssdR [x] = 0.
Proof. unfold ssdR, sqdev. rewrite meanR_one. simpl. ring. Qed.

(* ---- elementary inequalities ---- *)
Lemma Rabs_mult_le (x y a b : R) : Rabs x <= a -> Rabs y <= b -> Rabs (x * y) <= a * b.
Proof.
  intros Hx Hy. rewrite Rabs_mult. apply Rmult_le_compat; try apply Rabs_pos; assumption.
Qed.

Lemma prod_err (x y a b : R) : Rabs x <= a -> Rabs y <= b -> Rabs ((1 + x) * (1 + y) - 1) <= (1 + a) * (1 + b) - 1.
Proof.
  intros Hx Hy. replace ((1 + x) * (1 + y) - 1) with (x + y + x * y) by ring.
  pose proof (Rabs_mult_le x y a b Hx Hy) as Hxy.
  eapply Rle_trans; [apply Rabs_triang|]. eapply Rle_trans; [apply Rplus_le_compat_r, Rabs_triang|].
  replace ((1 + a) * (1 + b) - 1) with (a + b + a * b) by ring. lra.
Qed.

Lemma err2 (u d1 d2 : R) : 0 <= u <= 1 -> Rabs d1 <= u -> Rabs d2 <= u -> Rabs ((1 + d1) * (1 + d2) - 1) <= 3 * u.
Proof.
  intros Hu H1 H2. eapply Rle_trans; [apply prod_err; eassumption|].
  assert (u * u <= u * 1) by (apply Rmult_le_compat_l; lra).
  replace ((1 + u) * (1 + u) - 1) with (2 * u + u * u) by ring. lra.
Qed.

Lemma err3 (u d1 d2 d3 : R) : 0 <= u -> 5 * u <= 1 -> Rabs d1 <= u -> Rabs d2 <= u -> Rabs d3 <= u ->
  Rabs ((1 + d1) * (1 + d2) * (1 + d3) - 1) <= 4 * u.
Proof.
  intros Hu Hu5 H1 H2 H3.
  pose proof (prod_err d1 d2 u u H1 H2) as P2.
  replace ((1 + d1) * (1 + d2) * (1 + d3) - 1) with ((1 + ((1 + d1) * (1 + d2) - 1)) * (1 + d3) - 1) by ring.
  eapply Rle_trans; [apply prod_err; eassumption|].
  assert (A1 : u * u <= u * / 5) by (apply Rmult_le_compat_l; lra).
  assert (A2 : u * u * u <= u * / 5 * / 5).
  { apply Rmult_le_compat; try lra. apply Rmult_le_pos; lra. }
  replace ((1 + ((1 + u) * (1 + u) - 1)) * (1 + u) - 1) with (3 * u + 3 * (u * u) + u * u * u) by ring. lra.
Qed.

(* step 4 of the analysis: the error of the running mean grows by at most u A + 2 u R + eta per item *)
Lemma mean_err_step (u eta A Rr k M X mu q mm d1 d2 h2 E : R) :
  0 <= u <= 1 -> 2 <= k -> Rabs (X - M) <= Rr ->
  Rabs d1 <= u -> Rabs d2 <= u -> Rabs h2 <= eta ->
  q = (X - M) * (1 + d1) / k * (1 + d2) + h2 ->
  Rabs (mm - (M + q)) <= u * A ->
  Rabs (M - mu) <= E ->
  Rabs (mm - (mu + (X - mu) / k)) <= E + (u * A + 2 * u * Rr + eta).
Proof.
  intros Hu Hk Ha H1 H2 Hh Eq Hm He.
  assert (Hik : 0 < / k <= / 2).
  { split; [apply Rinv_0_lt_compat; lra|apply Rinv_le_contravar; lra]. }
  replace (mm - (mu + (X - mu) / k))
    with ((M - mu) * (1 - / k) + (X - M) * (((1 + d1) * (1 + d2) - 1) * / k) + h2 + (mm - (M + q)))
    by (subst q; field; lra).
  assert (HR : 0 <= Rr) by (eapply Rle_trans; [apply Rabs_pos|exact Ha]).
  assert (HE : 0 <= E) by (eapply Rle_trans; [apply Rabs_pos|exact He]).
  assert (B1 : Rabs ((M - mu) * (1 - / k)) <= E * 1).
  { apply Rabs_mult_le; [exact He|]. apply Rabs_le. lra. }
  assert (B2 : Rabs (((1 + d1) * (1 + d2) - 1) * / k) <= (3 * u) * / 2).
  { apply Rabs_mult_le; [apply err2; assumption|]. rewrite Rabs_pos_eq; lra. }
  assert (B3 : Rabs ((X - M) * (((1 + d1) * (1 + d2) - 1) * / k)) <= Rr * ((3 * u) * / 2)).
  { apply Rabs_mult_le; assumption. }
  assert (B4 : Rr * (3 * u * / 2) <= 2 * u * Rr).
  { assert (0 <= Rr * u) by (apply Rmult_le_pos; lra). lra. }
  eapply Rle_trans; [apply Rabs_triang|]. eapply Rle_trans; [apply Rplus_le_compat_r, Rabs_triang|].
  eapply Rle_trans; [apply Rplus_le_compat_r, Rplus_le_compat_r, Rabs_triang|]. lra.
Qed.

(* step 5a: the computed increment p against the exact increment (X - mu)(X - mu') = (a + e)(b + e') *)
Lemma pinc_bound (u eta Rr a b d1 d4 d5 h5 e e' E E' p : R) :
  0 <= u -> 5 * u <= 1 -> Rabs a <= Rr -> Rabs b <= Rr ->
  Rabs d1 <= u -> Rabs d4 <= u -> Rabs d5 <= u -> Rabs h5 <= eta ->
  Rabs e <= E -> Rabs e' <= E' ->
  p = (a * (1 + d1)) * (b * (1 + d4)) * (1 + d5) + h5 ->
  Rabs (p - (a + e) * (b + e')) <= 4 * u * (Rr * Rr) + eta + Rr * (E + E') + E * E'.
Proof.
  intros Hu Hu5 Ha Hb H1 H4 H5 Hh He He' ->.
  replace ((a * (1 + d1)) * (b * (1 + d4)) * (1 + d5) + h5 - (a + e) * (b + e'))
    with ((a * b) * ((1 + d1) * (1 + d4) * (1 + d5) - 1) + h5 + - (a * e') + - (b * e) + - (e * e')) by ring.
  pose proof (err3 u d1 d4 d5 Hu Hu5 H1 H4 H5) as P3.
  assert (B1 : Rabs ((a * b) * ((1 + d1) * (1 + d4) * (1 + d5) - 1)) <= (Rr * Rr) * (4 * u)).
  { apply Rabs_mult_le; [apply Rabs_mult_le; assumption|exact P3]. }
  assert (B2 : Rabs (- (a * e')) <= Rr * E') by (rewrite Rabs_Ropp; apply Rabs_mult_le; assumption).
  assert (B3 : Rabs (- (b * e)) <= Rr * E) by (rewrite Rabs_Ropp; apply Rabs_mult_le; assumption).
  assert (B4 : Rabs (- (e * e')) <= E * E') by (rewrite Rabs_Ropp; apply Rabs_mult_le; assumption).
  eapply Rle_trans; [apply Rabs_triang|]. eapply Rle_trans; [apply Rplus_le_compat_r, Rabs_triang|].
  eapply Rle_trans; [apply Rplus_le_compat_r, Rplus_le_compat_r, Rabs_triang|].
  eapply Rle_trans; [apply Rplus_le_compat_r, Rplus_le_compat_r, Rplus_le_compat_r, Rabs_triang|].
  lra.
Qed.

(* step 5b: accumulation S' = fl(S + p) *)
Lemma facc_bound (u S p S' sg inc sg' F g : R) :
  0 <= u -> 0 <= sg' -> sg' = sg + inc ->
  Rabs (S' - (S + p)) <= u * Rabs (S + p) ->
  Rabs (S - sg) <= F -> Rabs (p - inc) <= g ->
  Rabs (S' - sg') <= (F + g) * (1 + u) + u * sg'.
Proof.
  intros Hu Hsg -> Hr HF Hg.
  assert (B1 : Rabs (S + p) <= (sg + inc) + F + g).
  { replace (S + p) with ((sg + inc) + (S - sg) + (p - inc)) by ring.
    eapply Rle_trans; [apply Rabs_triang|]. eapply Rle_trans; [apply Rplus_le_compat_r, Rabs_triang|].
    rewrite (Rabs_pos_eq (sg + inc)) by exact Hsg. lra. }
  assert (B2 : u * Rabs (S + p) <= u * ((sg + inc) + F + g)) by (apply Rmult_le_compat_l; assumption).
  replace (S' - (sg + inc)) with ((S' - (S + p)) + (S - sg) + (p - inc)) by ring.
  eapply Rle_trans; [apply Rabs_triang|]. eapply Rle_trans; [apply Rplus_le_compat_r, Rabs_triang|].
  replace ((F + g) * (1 + u) + u * (sg + inc)) with (u * ((sg + inc) + F + g) + F + g) by ring. lra.
Qed.

(* the emitted variance: one more division *)
Lemma out_bound (u eta S sg F k1 d hh v : R) :
  0 <= u -> 0 < k1 -> 0 <= sg -> Rabs (S - sg) <= F -> Rabs d <= u -> Rabs hh <= eta ->
  v = S / k1 * (1 + d) + hh ->
  Rabs (v - sg / k1) <= F / k1 * (1 + u) + u * (sg / k1) + eta.
Proof.
  intros Hu Hk Hsg HF Hd Hh ->.
  assert (Hik : 0 < / k1) by (apply Rinv_0_lt_compat; exact Hk).
  replace (S / k1 * (1 + d) + hh - sg / k1) with ((S - sg) * / k1 * (1 + d) + d * (sg * / k1) + hh) by (field; lra).
  assert (B0 : Rabs (1 + d) <= 1 + u).
  { eapply Rle_trans; [apply Rabs_triang|]. rewrite Rabs_R1. lra. }
  assert (B1 : Rabs ((S - sg) * / k1 * (1 + d)) <= F * / k1 * (1 + u)).
  { apply Rabs_mult_le; [|exact B0]. apply Rabs_mult_le; [exact HF|]. rewrite Rabs_pos_eq; lra. }
  assert (B2 : Rabs (d * (sg * / k1)) <= u * (sg * / k1)).
  { apply Rabs_mult_le; [exact Hd|]. rewrite Rabs_pos_eq; [lra|]. apply Rmult_le_pos; lra. }
  eapply Rle_trans; [apply Rabs_triang|]. eapply Rle_trans; [apply Rplus_le_compat_r, Rabs_triang|].
  unfold Rdiv. lra.
Qed.
