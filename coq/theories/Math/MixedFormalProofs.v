(* C12, floating point: the two-pass formal variance / stddev (fvariance_run, fstddev_run) on lists that MIX Python
   ints and floats.

   What the model does with an int item: moment1 maps it to  int - 0 = int  and hands the list to builtin sum, which
   adds ints exactly while it has only seen ints and, once a float has been seen, adds a later int to the float
   accumulator WITHOUT compensation (float items are compensated).  The mean is a float (true division), so in the
   second pass every item, int or float, becomes the float  float(item) - mean.

   Consequences proved here:
   (R) REFUTED: "the run on a mixed list equals the run on the converted floats whenever every int is below 2^53" is
       FALSE, both for an int that follows a float and for ints that precede a float (two concrete witnesses,
       evaluated: all ints are 2^52 + 1).
   (1) The ONLY difference is the first pass: if the two means agree, the emitted values agree (no side condition).
   (2) ALL-INT lists: when every item and every partial sum is below 2^53 in magnitude, the int sum is exact, the
       compensated float sum of the converted items is exact too (every compensation term is +0.0), the means agree
       bit for bit, hence fvariance_run / fstddev_run on the int list equal the runs on the converted floats, and the
       binary64 error bounds of FormalVarianceErrorProofs.v transfer (corollaries at the end). *)
From Coq Require Import List ZArith Reals Lra Lia Floats Bool.
From Flocq Require Import Core BinarySingleNaN PrimFloat.
From RxVerif Require Import Math.Exact Math.FloatModel Math.SumErrorProofs Math.MeanErrorProofs Math.FloatOpsProofs
  Math.VarianceNonnegProofs Math.WelfordReal Math.WelfordErrorProofs Math.StddevErrorProofs Math.PySumErrorProofs
  Math.FormalVarianceErrorProofs Math.MixedItemsProofs.
Import ListNotations.
Local Open Scope R_scope.

(* ================= (R) the faithful statement is false ================= *)
Definition B52 : Z := 4503599627370496%Z.          (* 2^52 *)
(* an int after floats: 2^52, 2^52, int 2^52+1, 2^52+2 *)
Definition witness_after : list num := [NF (f_of_Z B52); NF (f_of_Z B52); NI (B52 + 1); NF (f_of_Z (B52 + 2))].
(* ints before floats: int 2^52+1, int 2^52+1, 2^52+1, 2^52+2 *)
Definition witness_before : list num := [NI (B52 + 1); NI (B52 + 1); NF (f_of_Z (B52 + 1)); NF (f_of_Z (B52 + 2))].

Example witness_after_small : Forall small_num witness_after.
Proof. repeat constructor; unfold small; cbn; lia. Qed.
Example witness_before_small : Forall small_num witness_before.
Proof. repeat constructor; unfold small; cbn; lia. Qed.

Example witness_after_mixed : fvariance_run (FA []) true witness_after = [NF 1.25%float].
Proof. vm_compute. reflexivity. Qed.
Example witness_after_converted : fvariance_run (FA []) true (map to_fl witness_after) = [NF 0.75%float].
Proof. vm_compute. reflexivity. Qed.
Example witness_before_mixed : fvariance_run (FA []) true witness_before = [NF 0.75%float].
Proof. vm_compute. reflexivity. Qed.
Example witness_before_converted : fvariance_run (FA []) true (map to_fl witness_before) = [NF 0.25%float].
Proof. vm_compute. reflexivity. Qed.

Definition single_out (l : list num) : pfloat := match l with [v] => to_f v | _ => Coq.Floats.PrimFloat.nan end.

Theorem mixed_formal_refuted_int_after_float :
  fvariance_run (FA []) true witness_after <> fvariance_run (FA []) true (map to_fl witness_after).
Proof.
  intro H. assert (E : fbits_eqb (single_out (fvariance_run (FA []) true witness_after))
                                 (single_out (fvariance_run (FA []) true (map to_fl witness_after))) = true).
  { rewrite <- H. apply Leibniz.eqb_spec. reflexivity. }
  vm_compute in E. discriminate E.
Qed.
Theorem mixed_formal_refuted_int_before_float :
  fvariance_run (FA []) true witness_before <> fvariance_run (FA []) true (map to_fl witness_before).
Proof.
  intro H. assert (E : fbits_eqb (single_out (fvariance_run (FA []) true witness_before))
                                 (single_out (fvariance_run (FA []) true (map to_fl witness_before))) = true).
  { rewrite <- H. apply Leibniz.eqb_spec. reflexivity. }
  vm_compute in E. discriminate E.
Qed.

(* ================= (1) only the first pass can differ ================= *)
Lemma zlen_to_fl (l : list num) : zlen (map to_fl l) = zlen l.
Proof. unfold zlen. rewrite map_length. reflexivity. Qed.

Lemma second_pass_items (h : hints) (n : Z) (m : pfloat) : forall (l : list num) (k : Z),
  mapi_from (fun i v => pow2 (FA h) n i (sub (FA h) v (NF m))) k (map to_fl l)
  = mapi_from (fun i v => pow2 (FA h) n i (sub (FA h) v (NF m))) k l.
Proof.
  induction l as [|v r IH]; intro k; [reflexivity|]. cbn [map mapi_from]. rewrite IH. f_equal.
  cbn [sub FA]. unfold to_fl. rewrite !nsub_NF_r. reflexivity.
Qed.

Theorem mixed_fvar_out_of_mean (h : hints) (l : list num) :
  moment1 (FA h) l = moment1 (FA h) (map to_fl l) -> fvar_out (FA h) l = fvar_out (FA h) (map to_fl l).
Proof.
  intro E. unfold fvar_out. change (T (FA h)) with num in *. rewrite zlen_to_fl. destruct (zlen l =? 0)%Z; [reflexivity|].
  rewrite <- E. assert (Hm : exists m, moment1 (FA h) l = NF m) by (unfold moment1; cbn [div FA]; unfold ndiv; eexists; reflexivity).
  destruct Hm as (m & ->). unfold moment2. rewrite zlen_to_fl, second_pass_items. reflexivity.
Qed.

(* ================= (2) all-int lists ================= *)
Lemma sum_int_ints : forall (zs : list Z) (i : Z), sum_int i (map NI zs) = NI (fold_left Z.add zs i).
Proof. induction zs as [|z r IH]; intro i; [reflexivity|]. cbn [map sum_int fold_left]. apply IH. Qed.

Lemma small_opp (z : Z) : small z -> small (- z).
Proof. unfold small. rewrite Z.abs_opp. auto. Qed.
Lemma small_0 : small 0.
Proof. unfold small. cbn. lia. Qed.

(* the compensated float sum of converted ints whose partial sums stay below 2^53: exact, compensation +0.0 *)
Lemma sum_float_ints : forall (zs : list Z) (P : Z), small P -> int_prefix_ok P (map NI zs) ->
  sum_float (f_of_Z P) zero (map NF (map f_of_Z zs)) = f_of_Z (fold_left Z.add zs P).
Proof.
  induction zs as [|z r IH]; intros P HP Hok; [reflexivity|].
  cbn [map int_prefix_ok] in Hok. destruct Hok as (Hz & HPz & Hr).
  cbn [map sum_float fold_left].
  rewrite <- (f_of_Z_add P z HP Hz HPz).
  assert (C1 : ((f_of_Z P - f_of_Z (P + z)) + f_of_Z z)%float = zero).
  { rewrite <- (f_of_Z_sub P (P + z) HP HPz) by (replace (P - (P + z))%Z with (- z)%Z by ring; apply small_opp; exact Hz).
    replace (P - (P + z))%Z with (- z)%Z by ring.
    rewrite <- (f_of_Z_add (- z) z (small_opp z Hz) Hz) by (replace (- z + z)%Z with 0%Z by ring; exact small_0).
    replace (- z + z)%Z with 0%Z by ring. reflexivity. }
  assert (C2 : ((f_of_Z z - f_of_Z (P + z)) + f_of_Z P)%float = zero).
  { rewrite <- (f_of_Z_sub z (P + z) Hz HPz) by (replace (z - (P + z))%Z with (- P)%Z by ring; apply small_opp; exact HP).
    replace (z - (P + z))%Z with (- P)%Z by ring.
    rewrite <- (f_of_Z_add (- P) P (small_opp P HP) HP) by (replace (- P + P)%Z with 0%Z by ring; exact small_0).
    replace (- P + P)%Z with 0%Z by ring. reflexivity. }
  rewrite C1, C2. change (zero + zero)%float with zero.
  destruct (Coq.Floats.PrimFloat.abs (f_of_Z z) <=? Coq.Floats.PrimFloat.abs (f_of_Z P))%float; apply IH; assumption.
Qed.

Lemma first_pass_ints_mixed (h : hints) (zs : list Z) :
  map (fun v => pow1 (FA h) (sub (FA h) v (of_int (FA h) 0))) (map NI zs) = map NI zs.
Proof.
  rewrite map_map. apply map_ext. intro z. cbn [pow1 sub of_int FA nsub npow1]. unfold npow1. rewrite Z.sub_0_r. reflexivity.
Qed.
Lemma first_pass_ints_conv (h : hints) (zs : list Z) : Forall small zs ->
  map (fun v => pow1 (FA h) (sub (FA h) v (of_int (FA h) 0))) (map to_fl (map NI zs)) = map NF (map f_of_Z zs).
Proof.
  intro Hs. rewrite !map_map. apply map_ext_in. intros z Hz. cbn [pow1 sub of_int FA nsub npow1 to_fl to_f]. unfold npow1.
  pose proof (proj1 (Forall_forall _ _) Hs z Hz) as Sz.
  rewrite <- (f_of_Z_sub z 0 Sz small_0) by (rewrite Z.sub_0_r; exact Sz). rewrite Z.sub_0_r. reflexivity.
Qed.

Lemma ints_all_small : forall (zs : list Z) (P : Z), int_prefix_ok P (map NI zs) -> Forall small zs.
Proof.
  induction zs as [|z r IH]; intros P H; [constructor|]. cbn [map int_prefix_ok] in H. destruct H as (Hz & _ & Hr).
  constructor; [exact Hz|exact (IH _ Hr)].
Qed.

(* the two means agree bit for bit *)
Theorem mixed_formal_ints_mean (h : hints) (zs : list Z) : int_prefix_ok 0 (map NI zs) ->
  moment1 (FA h) (map NI zs) = moment1 (FA h) (map to_fl (map NI zs)).
Proof.
  intro Hok. unfold moment1. rewrite zlen_to_fl, first_pass_ints_mixed, (first_pass_ints_conv h zs (ints_all_small zs 0 Hok)).
  cbn [pysum FA div]. unfold ndiv, npysum. f_equal. f_equal. rewrite sum_int_ints.
  destruct zs as [|z r]; [reflexivity|].
  cbn [map int_prefix_ok] in Hok. destruct Hok as (Hz & H0z & Hr).
  cbn [map sum_int fold_left to_f]. rewrite <- (f_of_Z_add 0 z small_0 Hz H0z).
  symmetry. apply sum_float_ints; assumption.
Qed.

Lemma int_prefix_firstn : forall (k : nat) (l : list num) (s : Z), int_prefix_ok s l -> int_prefix_ok s (firstn k l).
Proof.
  induction k as [|k IH]; intros l s H; [exact I|]. destruct l as [|[z|f] r]; try exact I.
  cbn [firstn int_prefix_ok] in *. destruct H as (H1 & H2 & H3). auto.
Qed.

Lemma mixed_fvar_out_ints (h : hints) (zs : list Z) : int_prefix_ok 0 (map NI zs) ->
  fvar_out (FA h) (map NI zs) = fvar_out (FA h) (map to_fl (map NI zs)).
Proof. intro Hok. apply mixed_fvar_out_of_mean. apply mixed_formal_ints_mean. exact Hok. Qed.

(* side condition: every item and every partial sum of the int list is below 2^53 in magnitude *)
Theorem mixed_fvariance_run_ints (h : hints) (reduce : bool) (zs : list Z) : int_prefix_ok 0 (map NI zs) ->
  fvariance_run (FA h) reduce (map NI zs) = fvariance_run (FA h) reduce (map to_fl (map NI zs)).
Proof.
  intro Hok. destruct reduce.
  - rewrite !fvariance_run_reduce. f_equal. apply mixed_fvar_out_ints. exact Hok.
  - rewrite !fvariance_run_stream, !map_length. apply map_ext. intro k.
    rewrite !firstn_map. apply mixed_fvar_out_ints.
    rewrite <- firstn_map. apply int_prefix_firstn. exact Hok.
Qed.
Theorem mixed_fstddev_run_ints (h : hints) (reduce : bool) (zs : list Z) : int_prefix_ok 0 (map NI zs) ->
  fstddev_run (FA h) reduce (map NI zs) = fstddev_run (FA h) reduce (map to_fl (map NI zs)).
Proof. intro Hok. unfold fstddev_run. rewrite (mixed_fvariance_run_ints h reduce zs Hok). reflexivity. Qed.

(* ---- corollaries: the binary64 error bounds on all-int lists, against the exact population variance of the ints ---- *)
Lemma to_fl_ints (zs : list Z) : map to_fl (map NI zs) = map NF (map f_of_Z zs).
Proof. rewrite !map_map. reflexivity. Qed.

Lemma ints_converted (zs : list Z) : Forall small zs ->
  Forall ffin (map f_of_Z zs) /\ map FR (map f_of_Z zs) = map IZR zs.
Proof.
  induction 1 as [|z r Hz Hr (IH1 & IH2)]; [split; [constructor|reflexivity]|].
  destruct (f_of_Z_small z Hz) as (F & E). cbn [map]. split; [constructor; assumption|]. rewrite E, IH2. reflexivity.
Qed.

Lemma ints_range (zs : list Z) (lo hi : R) : Forall small zs -> Forall (fun z => lo <= IZR z <= hi) zs ->
  Forall (fun x => lo <= FR x <= hi) (map f_of_Z zs).
Proof.
  intros Hs Hr. apply Forall_forall. intros x Hx. apply in_map_iff in Hx. destruct Hx as (z & <- & Hz).
  rewrite (proj2 (f_of_Z_small z (proj1 (Forall_forall _ _) Hs z Hz))). exact (proj1 (Forall_forall _ _) Hr z Hz).
Qed.

Theorem mixed_fvariance_ints_error (h : hints) (zs : list Z) (lo hi Rr : R) :
  zs <> [] -> int_prefix_ok 0 (map NI zs) -> Forall (fun z => lo <= IZR z <= hi) zs -> hi - lo <= Rr ->
  (Z.of_nat (length zs) < 2 ^ 53)%Z -> fvar_fin h (map f_of_Z zs) = true ->
  exists f, fvariance_run (FA h) true (map NI zs) = [NF f] /\ ffin f /\
    Rabs (FR f - popvarR (map IZR zs)) <= fvar_bound Rr (map IZR zs).
Proof.
  intros Hne Hok Hrg HR Hb Hfin. rewrite (mixed_fvariance_run_ints h true zs Hok), to_fl_ints.
  destruct (ints_converted zs (ints_all_small zs 0 Hok)) as (Hl & E).
  destruct (fvariance_reduce_error h (map f_of_Z zs) lo hi Rr) as (f & Ef & Ff & B); try assumption.
  - destruct zs; [congruence|discriminate].
  - apply ints_range; [exact (ints_all_small zs 0 Hok)|exact Hrg].
  - rewrite map_length. exact Hb.
  - exists f. rewrite E in B. auto.
Qed.

Theorem mixed_fstddev_ints_error (h : hints) (zs : list Z) (lo hi Rr : R) :
  zs <> [] -> int_prefix_ok 0 (map NI zs) -> Forall (fun z => lo <= IZR z <= hi) zs -> hi - lo <= Rr ->
  (Z.of_nat (length zs) < 2 ^ 53)%Z -> fstd_fin h (map f_of_Z zs) = true ->
  exists g, fstddev_run (FA h) true (map NI zs) = [NF g] /\ ffin g /\ 0 <= FR g /\
    Rabs (FR g - rsqrt (popvarR (map IZR zs)))
    <= rsqrt (fvar_bound Rr (map IZR zs)) * (1 + u53) + u53 * rsqrt (popvarR (map IZR zs)).
Proof.
  intros Hne Hok Hrg HR Hb Hfin. rewrite (mixed_fstddev_run_ints h true zs Hok), to_fl_ints.
  destruct (ints_converted zs (ints_all_small zs 0 Hok)) as (Hl & E).
  destruct (fstddev_reduce_error h (map f_of_Z zs) lo hi Rr) as (g & Eg & Fg & Pg & B); try assumption.
  - destruct zs; [congruence|discriminate].
  - apply ints_range; [exact (ints_all_small zs 0 Hok)|exact Hrg].
  - rewrite map_length. exact Hb.
  - exists g. rewrite E in B. auto.
Qed.

(* evaluated: an all-int list, and the side conditions on it *)
Example mixed_formal_ints_example :
  fvariance_run (FA []) false (map NI [3; -5; 7; 7; 0]%Z) = fvariance_run (FA []) false (map to_fl (map NI [3; -5; 7; 7; 0]%Z)).
Proof. vm_compute. reflexivity. Qed.
