(* Stretch part of C12: a floating-point ERROR BOUND for `sum` on binary64 (recursive summation),
     | fl_sum - sum x_i |  <=  ((1 + u)^n - 1) * sum |x_i|,      u = 2^-53,
   for the very function the correspondence evaluates (sum_run (FA h)), provided no running sum overflows.
   Goes through Flocq (Prim2B, add_equiv, Bplus_correct, FLT_plus_error_N_ex), hence through the standard
   library's FloatAxioms (specification of the primitive float operations) and the axioms of Reals. *)
From Coq Require Import List ZArith Reals Lra Lia Floats.
From Flocq Require Import Core BinarySingleNaN PrimFloat Relative Plus_error.
From RxVerif Require Import Math.Exact Math.FloatModel.
Import ListNotations.
Open Scope R_scope.

Notation pfloat := Coq.Floats.PrimFloat.float.
Notation padd := Coq.Floats.PrimFloat.add.

(* the real number a (finite) binary64 float denotes *)
Definition FR (x : pfloat) : R := B2R (Prim2B x).
Definition ffin (x : pfloat) : Prop := Coq.Floats.PrimFloat.is_finite x = true.
(* unit roundoff of binary64 *)
Definition u53 : R := u_ro radix2 prec.
Definition sumR (l : list R) : R := fold_right Rplus 0 l.

Lemma u53_value : u53 = / 2 ^ 53.
Proof.
  unfold u53, u_ro.
  change (bpow radix2 (- prec + 1)) with (/ IZR (Z.pow_pos 2 52)).
  replace (IZR (Z.pow_pos 2 52)) with (2 ^ 52).
  - simpl pow. field.
  - rewrite pow_IZR. reflexivity.
Qed.

Lemma u53_pos : 0 <= u53.
Proof. apply u_ro_pos. Qed.

Lemma ffin_equiv (x : pfloat) : ffin x <-> is_finite (Prim2B x) = true.
Proof. unfold ffin. rewrite is_finite_equiv. tauto. Qed.

(* one floating-point addition whose result is finite: (x + y)(1 + eps), |eps| <= u *)
Lemma add_finite_error (x y : pfloat) :
  ffin x -> ffin y -> ffin (x + y)%float ->
  exists eps, Rabs eps <= u53 /\ FR (x + y)%float = (FR x + FR y) * (1 + eps).
Proof.
  intros Hx Hy Hs. apply ffin_equiv in Hx, Hy, Hs. unfold FR.
  rewrite add_equiv in *.
  pose proof (Bplus_correct prec emax Hprec Hmax mode_NE (Prim2B x) (Prim2B y) Hx Hy) as C.
  destruct (Rlt_bool _ _).
  - destruct C as (E & _). rewrite E.
    destruct (@FLT_plus_error_N_ex radix2 (3 - emax - prec) prec Hprec (fun z => negb (Z.even z))
                (B2R (Prim2B x)) (B2R (Prim2B y))) as (eps & B & Heq).
    + apply generic_format_B2R.
    + apply generic_format_B2R.
    + exists eps. split.
      * eapply Rle_trans; [exact B|]. apply u_rod1pu_ro_le_u_ro.
      * exact Heq.
  - destruct C as (E & _). rewrite <- is_finite_SF_B2SF in Hs. rewrite E in Hs.
    simpl in Hs. discriminate.
Qed.

Lemma sumR_abs_nonneg (l : list pfloat) : 0 <= sumR (map (fun x => Rabs (FR x)) l).
Proof. induction l as [|a l IH]; simpl; [lra|]. pose proof (Rabs_pos (FR a)). lra. Qed.

Lemma pow1u_ge1 (n : nat) : 1 <= (1 + u53) ^ n.
Proof. apply pow_R1_Rle. pose proof u53_pos. lra. Qed.

Lemma step_bound (u G AB Tt s1 d1 d2 : R) :
  0 <= u -> 1 <= G -> 0 <= AB -> 0 <= Tt ->
  s1 <= AB * (1 + u) -> d1 <= (G - 1) * (s1 + Tt) -> d2 <= AB * u ->
  d1 + d2 <= ((1 + u) * G - 1) * (AB + Tt).
Proof.
  intros Hu HG HAB HT Hs Hd1 Hd2.
  assert (H1 : (G - 1) * (s1 + Tt) <= (G - 1) * (AB * (1 + u) + Tt)).
  { apply Rmult_le_compat_l; lra. }
  assert (H2 : 0 <= u * G * Tt).
  { apply Rmult_le_pos; [apply Rmult_le_pos|]; lra. }
  replace (((1 + u) * G - 1) * (AB + Tt)) with ((G - 1) * (AB * (1 + u) + Tt) + AB * u + u * G * Tt) by ring.
  lra.
Qed.

(* recursive summation from an arbitrary finite start value *)
Lemma fsum_error (l : list pfloat) : forall acc : pfloat,
  ffin acc -> Forall ffin l -> Forall ffin (scan_states padd acc l) ->
  Rabs (FR (fold_left padd l acc) - (FR acc + sumR (map FR l)))
  <= ((1 + u53) ^ length l - 1) * (Rabs (FR acc) + sumR (map (fun x => Rabs (FR x)) l)).
Proof.
  induction l as [|x r IH]; intros acc Ha Hl Hs.
  - simpl. replace (FR acc - (FR acc + 0)) with 0 by ring. rewrite Rabs_R0.
    replace ((1 - 1) * (Rabs (FR acc) + 0)) with 0 by ring. lra.
  - inversion Hl as [|? ? Hx Hr]; subst. simpl scan_states in Hs.
    inversion Hs as [|? ? Hs1 Hsr]; subst.
    destruct (add_finite_error acc x Ha Hx Hs1) as (eps & Be & Es).
    specialize (IH (acc + x)%float Hs1 Hr Hsr).
    simpl fold_left. simpl map. simpl sumR. simpl length. simpl pow.
    set (res := FR (fold_left padd r (acc + x)%float)) in *.
    set (S' := sumR (map FR r)) in *.
    set (Tt := sumR (map (fun x0 : pfloat => Rabs (FR x0)) r)) in *.
    set (G := (1 + u53) ^ length r) in *.
    set (s1 := FR (acc + x)%float) in *.
    set (a := FR acc) in *. set (b := FR x) in *.
    replace (res - (a + (b + S'))) with ((res - (s1 + S')) + (s1 - (a + b))) by ring.
    eapply Rle_trans; [apply Rabs_triang|].
    replace (Rabs a + (Rabs b + Tt)) with ((Rabs a + Rabs b) + Tt) by ring.
    apply (step_bound u53 G (Rabs a + Rabs b) Tt (Rabs s1)).
    + apply u53_pos.
    + apply pow1u_ge1.
    + pose proof (Rabs_pos a). pose proof (Rabs_pos b). lra.
    + apply sumR_abs_nonneg.
    + rewrite Es. rewrite Rabs_mult.
      apply Rmult_le_compat; try apply Rabs_pos.
      * apply Rabs_triang.
      * eapply Rle_trans; [apply Rabs_triang|]. rewrite Rabs_R1. lra.
    + exact IH.
    + rewrite Es. replace ((a + b) * (1 + eps) - (a + b)) with ((a + b) * eps) by ring.
      rewrite Rabs_mult. apply Rmult_le_compat; try apply Rabs_pos.
      * apply Rabs_triang.
      * exact Be.
Qed.

Lemma FR_zero : FR zero = 0.
Proof. unfold FR. rewrite zero_equiv. rewrite Prim2B_B2Prim. reflexivity. Qed.

(* ---- the model's sum on float items is the fold of the primitive addition ---- *)
Lemma sum_fold_float (h : hints) (l : list pfloat) (acc : pfloat) :
  fold_left (sum_step (FA h)) (map NF l) (NF acc) = NF (fold_left padd l acc).
Proof. revert acc. induction l as [|x r IH]; intros acc; simpl; [reflexivity|]. apply IH. Qed.

Lemma sum_states_float (h : hints) (l : list pfloat) (acc : pfloat) :
  scan_states (sum_step (FA h)) (NF acc) (map NF l) = map NF (scan_states padd acc l).
Proof. revert acc. induction l as [|x r IH]; intros acc; simpl; [reflexivity|]. f_equal. apply IH. Qed.

Theorem float_sum_error (h : hints) (l : list pfloat) :
  Forall ffin l ->
  Forall (fun v => exists s, v = NF s /\ ffin s) (sum_run (FA h) false (map NF l)) ->
  exists s, sum_run (FA h) true (map NF l) = [NF s]
            /\ Rabs (FR s - sumR (map FR l))
               <= ((1 + u53) ^ length l - 1) * sumR (map (fun x => Rabs (FR x)) l).
Proof.
  intros Hl Hrun.
  exists (fold_left padd l zero). split.
  - unfold sum_run, scan_run. simpl fzero. rewrite sum_fold_float. reflexivity.
  - assert (Hs : Forall ffin (scan_states padd zero l)).
    { unfold sum_run, scan_run in Hrun. simpl fzero in Hrun. rewrite sum_states_float in Hrun.
      rewrite Forall_map in Hrun. eapply Forall_impl; [|exact Hrun].
      intros a (s & E & F). injection E as ->. exact F. }
    pose proof (fsum_error l zero eq_refl Hl Hs) as B.
    rewrite FR_zero, Rabs_R0 in B.
    replace (0 + sumR (map FR l)) with (sumR (map FR l)) in B by ring.
    replace (0 + sumR (map (fun x => Rabs (FR x)) l)) with (sumR (map (fun x => Rabs (FR x)) l)) in B by ring.
    exact B.
Qed.
