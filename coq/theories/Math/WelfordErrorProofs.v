(* C12, floating point: a forward ERROR BOUND for the Welford variance of the model (variance_run (FA h)), in
   binary64, against the exact mean mu_k and exact sum of squared deviations sigma_k of the first k items.
   u = u53 = 2^-53, eta = eta64 = 2^-1075.  Data in [lo, hi], hi - lo <= R, [lo, hi] inside [-A, A].
     eps    = u A + 2 u R + eta                                     (error added to the running mean per item)
     Eb k   = (k - 1) eps                                           |M_k - mu_k|    <= Eb k
     g k    = 4 u R^2 + eta + R (Eb k + Eb (k+1)) + Eb k Eb (k+1)
     Fb 1   = 0,  Fb (k+1) = (Fb k + g k) (1 + u) + u sigma_(k+1)   |S_k - sigma_k| <= Fb k
     emitted variance v_k (k >= 2):
        |v_k - sigma_k / (k-1)| <= Fb k / (k-1) (1 + u) + u sigma_k / (k-1) + eta
   under the hypotheses: all items finite, all Welford states finite (no overflow), fewer than 2^53 items. *)
From Coq Require Import List ZArith Reals Lra Lia Floats.
From Flocq Require Import Core BinarySingleNaN PrimFloat Relative Plus_error.
From RxVerif Require Import Math.Exact Math.FloatModel Math.SumErrorProofs Math.MeanErrorProofs Math.FloatOpsProofs
  Math.VarianceNonnegProofs Math.WelfordReal.
Import ListNotations.
Open Scope R_scope.

(* ---- the roundings of binary64 in relative-error form ---- *)
Lemma RND_sum_err (a b : R) : F64 a -> F64 b -> exists e, Rabs e <= u53 /\ RND (a + b) = (a + b) * (1 + e).
Proof.
  intros Fa Fb.
  destruct (@FLT_plus_error_N_ex radix2 (3 - emax - prec) prec Hprec (fun z => negb (Z.even z)) a b Fa Fb)
    as (e & B & E).
  exists e. split; [eapply Rle_trans; [exact B|apply u_rod1pu_ro_le_u_ro]|exact E].
Qed.
Lemma RND_diff_err (a b : R) : F64 a -> F64 b -> exists e, Rabs e <= u53 /\ RND (a - b) = (a - b) * (1 + e).
Proof. intros Fa Fb. unfold Rminus. apply RND_sum_err; [exact Fa|apply generic_format_opp; exact Fb]. Qed.
Lemma RND_err (r : R) : exists e hh, Rabs e <= u53 /\ Rabs hh <= eta64 /\ RND r = r * (1 + e) + hh.
Proof.
  destruct (@relative_error_N_FLT'_ex radix2 (3 - emax - prec) prec Hprec (fun z => negb (Z.even z)) r)
    as (e & hh & B1 & B2 & _ & E).
  exists e, hh. split; [eapply Rle_trans; [exact B1|apply u_rod1pu_ro_le_u_ro]|]. split; [exact B2|exact E].
Qed.

Lemma u53_le1 : 0 <= u53 <= 1.
Proof. pose proof u53_pos. pose proof u53_small. lra. Qed.

(* ---- the new mean lies between the old mean and the item (and so does the unrounded M + q) ---- *)
Lemma mean_between_up (X M k : R) : F64 X -> F64 M -> 2 <= k -> M <= X ->
  M <= M + RND (RND (X - M) / k) <= X /\ M <= RND (M + RND (RND (X - M) / k)) <= X.
Proof.
  intros FX FM Hk Hle.
  assert (Hik : 0 < / k) by (apply Rinv_0_lt_compat; lra).
  assert (H0 : 0 <= RND (X - M)) by (apply RND_nonneg; lra).
  assert (H1 : 0 <= RND (RND (X - M) / k)).
  { apply RND_nonneg. unfold Rdiv. apply Rmult_le_pos; lra. }
  assert (H2 : RND (RND (X - M) / k) <= X - M) by (apply toward_item; [exact FX|exact FM|lra|exact Hk]).
  split; [lra|]. split.
  - apply Rle_trans with (RND M); [rewrite (RND_gen M FM); lra|apply RND_le; lra].
  - apply Rle_trans with (RND X); [apply RND_le; lra|rewrite (RND_gen X FX); lra].
Qed.
Lemma mean_between_dn (X M k : R) : F64 X -> F64 M -> 2 <= k -> X <= M ->
  X <= M + RND (RND (X - M) / k) <= M /\ X <= RND (M + RND (RND (X - M) / k)) <= M.
Proof.
  intros FX FM Hk Hle.
  assert (Hik : 0 < / k) by (apply Rinv_0_lt_compat; lra).
  assert (H0 : RND (X - M) <= 0) by (apply RND_nonpos; lra).
  assert (H1 : RND (RND (X - M) / k) <= 0).
  { apply RND_nonpos. unfold Rdiv. replace (RND (X - M) * / k) with (- ((- RND (X - M)) * / k)) by ring.
    assert (0 <= (- RND (X - M)) * / k) by (apply Rmult_le_pos; lra). lra. }
  assert (H2 : X - M <= RND (RND (X - M) / k)) by (apply toward_item_neg; [exact FX|exact FM|lra|exact Hk]).
  split; [lra|]. split.
  - apply Rle_trans with (RND X); [rewrite (RND_gen X FX); lra|apply RND_le; lra].
  - apply Rle_trans with (RND M); [apply RND_le; lra|rewrite (RND_gen M FM); lra].
Qed.

Lemma len_snoc {X} (l : list X) (x : X) : length (l ++ [x]) = S (length l).
Proof. rewrite app_length. cbn [length]. lia. Qed.

Lemma scan_states_prefix {S I} (step : S -> I -> S) : forall (l : list I) (st : S),
  scan_states step st l = map (fun i => fold_left step (firstn i l) st) (seq 1 (length l)).
Proof.
  induction l as [|x r IH]; intros st; [reflexivity|].
  cbn [scan_states length seq map firstn fold_left]. f_equal.
  rewrite IH. rewrite <- (seq_shift (length r) 1). rewrite map_map. reflexivity.
Qed.

(* ---- the bounds ---- *)
Definition weps (A Rr : R) : R := u53 * A + 2 * u53 * Rr + eta64.
Definition wEb (A Rr : R) (k : nat) : R := INR (k - 1) * weps A Rr.
Definition wg (A Rr : R) (k : nat) : R :=
  4 * u53 * (Rr * Rr) + eta64 + Rr * (wEb A Rr k + wEb A Rr (S k)) + wEb A Rr k * wEb A Rr (S k).
(* xs: the exact items; wFb xs k only depends on the first k of them *)
Fixpoint wFb (A Rr : R) (xs : list R) (k : nat) : R :=
  match k with
  | O => 0
  | S j => match j with
           | O => 0
           | S _ => (wFb A Rr xs j + wg A Rr j) * (1 + u53) + u53 * ssdR (firstn (S j) xs)
           end
  end.

Lemma eta64_pos : 0 <= eta64.
Proof. unfold eta64. pose proof (bpow_ge_0 radix2 (3 - emax - prec)). lra. Qed.

Lemma wEb_1 (A Rr : R) : wEb A Rr 1 = 0.
Proof. unfold wEb. simpl. ring. Qed.
Lemma wEb_S (A Rr : R) (k : nat) : (1 <= k)%nat -> wEb A Rr (S k) = wEb A Rr k + weps A Rr.
Proof.
  intro H. unfold wEb. replace (S k - 1)%nat with (S (k - 1)) by lia. rewrite S_INR. ring.
Qed.
Lemma wFb_1 (A Rr : R) (xs : list R) : wFb A Rr xs 1 = 0.
Proof. reflexivity. Qed.
Lemma wFb_SS (A Rr : R) (xs : list R) (j : nat) :
  wFb A Rr xs (S (S j)) = (wFb A Rr xs (S j) + wg A Rr (S j)) * (1 + u53) + u53 * ssdR (firstn (S (S j)) xs).
Proof. reflexivity. Qed.
Lemma wFb_prefix (A Rr : R) : forall (k : nat) (xs ys : list R), firstn k xs = firstn k ys -> wFb A Rr xs k = wFb A Rr ys k.
Proof.
  induction k as [|j IH]; intros xs ys H; [reflexivity|]. destruct j as [|j]; [reflexivity|].
  rewrite !wFb_SS, H. rewrite (IH xs ys); [reflexivity|].
  replace (S j) with (Nat.min (S j) (S (S j))) by lia. rewrite <- !firstn_firstn, H. reflexivity.
Qed.
Lemma wFb_firstn (A Rr : R) (k : nat) (xs : list R) : wFb A Rr (firstn k xs) k = wFb A Rr xs k.
Proof. apply wFb_prefix. rewrite firstn_firstn. f_equal. lia. Qed.
Lemma wFb_snoc (A Rr : R) (pre : list R) (x : R) : (1 <= length pre)%nat ->
  wFb A Rr (pre ++ [x]) (S (length pre))
  = (wFb A Rr pre (length pre) + wg A Rr (length pre)) * (1 + u53) + u53 * ssdR (pre ++ [x]).
Proof.
  intro H. destruct (length pre) as [|n] eqn:E; [lia|]. rewrite wFb_SS.
  rewrite (firstn_all2 (pre ++ [x])) by (rewrite len_snoc; lia).
  rewrite (wFb_prefix A Rr (S n) (pre ++ [x]) pre); [reflexivity|].
  rewrite <- E. rewrite firstn_app, Nat.sub_diag. cbn [firstn]. rewrite app_nil_r. reflexivity.
Qed.

Section Step.
  Variables lo hi A Rr : R.
  Hypothesis HloA : - A <= lo.
  Hypothesis HhiA : hi <= A.
  Hypothesis HR : hi - lo <= Rr.
  Notation Eb := (wEb A Rr).
  Notation Fb := (wFb A Rr).

  (* one Welford step on finite values *)
  Lemma wstep_err (h : hints) (x m1 : pfloat) (s : num) (k0 : Z) (pre : list R) :
    (1 <= length pre)%nat -> k0 = Z.of_nat (length pre) -> (k0 + 1 < 2 ^ 53)%Z ->
    ffin x -> lo <= FR x <= hi -> lo <= FR m1 <= hi ->
    Rabs (FR m1 - meanR pre) <= Eb (length pre) ->
    Rabs (FR (to_f s) - ssdR pre) <= Fb pre (length pre) ->
    forall m' s', wstep (FA h) (Some (NF m1), s, k0) (NF x) = (Some (NF m'), NF s', (k0 + 1)%Z) ->
    ffin m' -> ffin s' ->
    lo <= FR m' <= hi /\
    Rabs (FR m' - meanR (pre ++ [FR x])) <= Eb (S (length pre)) /\
    Rabs (FR s' - ssdR (pre ++ [FR x])) <= Fb (pre ++ [FR x]) (S (length pre)).
  Proof.
    intros Hn Hk0 Hb Fx Rx Rm HE HF m' s' E Fm' Fs'.
    assert (Hnadd : forall p, nadd s (NF p) = NF (to_f s + p)%float) by (intro p0; destruct s; reflexivity).
    cbn [wstep add sub mul div of_int FA nsub nmul ndiv to_f] in E.
    change (nadd (NF m1)) with (fun b => nadd (NF m1) b) in E. cbn beta in E.
    rewrite Hnadd in E. cbn [nadd to_f] in E.
    injection E as Em' Es'. subst m' s'.
    destruct (f_of_Z_exact (k0 + 1)) as (Fk & Ek); [lia|].
    assert (HkI : IZR (k0 + 1) = INR (S (length pre))).
    { rewrite Hk0. replace (Z.of_nat (length pre) + 1)%Z with (Z.of_nat (S (length pre))) by lia.
      symmetry. apply INR_IZR_INZ. }
    assert (Hkr : 2 <= IZR (k0 + 1)) by (apply IZR_le; lia).
    assert (Hk0' : FR (f_of_Z (k0 + 1)) <> 0) by (rewrite Ek; lra).
    set (d0 := (x - m1)%float) in *. set (q := (d0 / f_of_Z (k0 + 1))%float) in *.
    set (mm := (m1 + q)%float) in *. set (d1 := (x - mm)%float) in *. set (p := (d0 * d1)%float) in *.
    destruct (add_fin_inv _ _ Fs') as (Fs & Fp).
    destruct (mul_fin_inv _ _ Fp) as (Fd0 & Fd1).
    destruct (add_fin_inv _ _ Fm') as (Fm1 & Fq).
    pose proof (sub_bwd x m1 Fx Fm1 Fd0) as Ed0. fold d0 in Ed0.
    pose proof (div_bwd d0 (f_of_Z (k0 + 1)) Hk0' Fq) as Eq. fold q in Eq. rewrite Ek in Eq.
    pose proof (add_bwd m1 q Fm1 Fq Fm') as Em. fold mm in Em.
    pose proof (sub_bwd x mm Fx Fm' Fd1) as Ed1. fold d1 in Ed1.
    pose proof (mul_bwd d0 d1 Fp) as Ep. fold p in Ep.
    pose proof (add_bwd (to_f s) p Fs Fp Fs') as Es.
    (* between *)
    assert (Hbt : lo <= FR m1 + FR q <= hi /\ lo <= FR mm <= hi).
    { rewrite Em, Eq, Ed0. destruct (Rle_or_lt (FR m1) (FR x)) as [Hle|Hlt].
      - pose proof (mean_between_up (FR x) (FR m1) (IZR (k0 + 1)) (F64_FR x) (F64_FR m1) Hkr Hle). lra.
      - assert (Hle : FR x <= FR m1) by lra.
        pose proof (mean_between_dn (FR x) (FR m1) (IZR (k0 + 1)) (F64_FR x) (F64_FR m1) Hkr Hle). lra. }
    destruct Hbt as (Rq & Rmm).
    (* relative-error forms *)
    destruct (RND_diff_err (FR x) (FR m1) (F64_FR x) (F64_FR m1)) as (e1 & B1 & E1). rewrite <- Ed0 in E1.
    destruct (RND_err (FR d0 / IZR (k0 + 1))) as (e2 & h2 & B2 & Bh2 & E2). rewrite <- Eq in E2.
    destruct (RND_sum_err (FR m1) (FR q) (F64_FR m1) (F64_FR q)) as (e3 & B3 & E3). rewrite <- Em in E3.
    destruct (RND_diff_err (FR x) (FR mm) (F64_FR x) (F64_FR mm)) as (e4 & B4 & E4). rewrite <- Ed1 in E4.
    destruct (RND_err (FR d0 * FR d1)) as (e5 & h5 & B5 & Bh5 & E5). rewrite <- Ep in E5.
    destruct (RND_sum_err (FR (to_f s)) (FR p) (F64_FR (to_f s)) (F64_FR p)) as (e6 & B6 & E6). rewrite <- Es in E6.
    pose proof u53_le1 as U1. pose proof u53_small as U5.
    assert (Ha : Rabs (FR x - FR m1) <= Rr) by (apply Rabs_le; lra).
    assert (Hb' : Rabs (FR x - FR mm) <= Rr) by (apply Rabs_le; lra).
    (* mean *)
    assert (Hmm : Rabs (FR mm - (FR m1 + FR q)) <= u53 * A).
    { rewrite E3. replace ((FR m1 + FR q) * (1 + e3) - (FR m1 + FR q)) with (e3 * (FR m1 + FR q)) by ring.
      apply Rabs_mult_le; [exact B3|apply Rabs_le; lra]. }
    assert (ME : Rabs (FR mm - meanR (pre ++ [FR x])) <= Eb (S (length pre))).
    { rewrite (meanR_snoc pre (FR x) Hn), <- HkI, (wEb_S A Rr (length pre) Hn).
      apply (mean_err_step u53 eta64 A Rr (IZR (k0 + 1)) (FR m1) (FR x) (meanR pre) (FR q) (FR mm) e1 e2 h2);
        try assumption.
      rewrite E2, E1. reflexivity. }
    split; [exact Rmm|]. split; [exact ME|].
    (* sum of squared deviations *)
    rewrite (wFb_snoc A Rr pre (FR x) Hn).
    apply (facc_bound u53 (FR (to_f s)) (FR p) (FR (to_f s + p)%float) (ssdR pre)
             ((FR x - meanR pre) * (FR x - meanR (pre ++ [FR x])))).
    - lra.
    - apply ssdR_nonneg.
    - apply ssdR_snoc. exact Hn.
    - rewrite E6. replace ((FR (to_f s) + FR p) * (1 + e6) - (FR (to_f s) + FR p)) with (e6 * (FR (to_f s) + FR p)) by ring.
      rewrite Rabs_mult. apply Rmult_le_compat_r; [apply Rabs_pos|exact B6].
    - exact HF.
    - replace (FR x - meanR pre) with ((FR x - FR m1) + (FR m1 - meanR pre)) by ring.
      replace (FR x - meanR (pre ++ [FR x])) with ((FR x - FR mm) + (FR mm - meanR (pre ++ [FR x]))) by ring.
      unfold wg.
      apply (pinc_bound u53 eta64 Rr (FR x - FR m1) (FR x - FR mm) e1 e4 e5 h5); try assumption; try lra.
      rewrite E5, E1, E4. reflexivity.
  Qed.

  (* the invariant: pre = the exact values of the items consumed so far (at least one) *)
  Definition winv (pre : list R) (st : wstate (FA [])) : Prop :=
    let '(mo, s, k) := st in
    exists m, mo = Some (NF m) /\ ffin m /\ ffin (to_f s) /\ 0 <= FR (to_f s)
      /\ k = Z.of_nat (length pre) /\ (1 <= length pre)%nat /\ lo <= FR m <= hi
      /\ Rabs (FR m - meanR pre) <= Eb (length pre)
      /\ Rabs (FR (to_f s) - ssdR pre) <= Fb pre (length pre).

  Lemma winv_step (h : hints) (x : pfloat) (pre : list R) (st : wstate (FA h)) :
    winv pre st -> ffin x -> lo <= FR x <= hi -> (Z.of_nat (length pre) + 1 < 2 ^ 53)%Z ->
    state_fin (wstep (FA h) st (NF x)) -> winv (pre ++ [FR x]) (wstep (FA h) st (NF x)).
  Proof.
    destruct st as [[mo s] k0]. intros (m1 & -> & Fm1 & Fs & Hs & Hk & Hn & Rm & HE & HF) Fx Rx Hb Hfin.
    change (T (FA h)) with num in *.
    destruct (wstep_shape h x m1 s k0) as (m' & s' & E). rewrite E in Hfin |- *.
    destruct Hfin as ((m'' & Em & Fm') & Fs'). injection Em as <-. cbn [to_f] in Fs'.
    assert (Hk1 : (1 <= k0)%Z) by lia. assert (Hb2 : (k0 + 1 < 2 ^ 53)%Z) by lia.
    pose proof (wstep_nonneg h x m1 s k0 Hk1 Hb2 Fx Hs m' s' E Fm' Fs') as N.
    destruct (wstep_err h x m1 s k0 pre Hn Hk Hb2 Fx Rx Rm HE HF m' s' E Fm' Fs') as (R' & ME & SE).
    cbn [winv]. exists m'. rewrite len_snoc. cbn [to_f].
    repeat (split; try assumption); try lia.
  Qed.

  Lemma winv_fold (h : hints) : forall (rest : list pfloat) (pre : list R) (st : wstate (FA h)),
    winv pre st -> Forall ffin rest -> Forall (fun x => lo <= FR x <= hi) rest ->
    (Z.of_nat (length pre + length rest) < 2 ^ 53)%Z ->
    Forall state_fin (scan_states (wstep (FA h)) st (map NF rest)) ->
    winv (pre ++ map FR rest) (fold_left (wstep (FA h)) (map NF rest) st).
  Proof.
    induction rest as [|x r IH]; intros pre st Hi Hl Hrg Hb Hf.
    - cbn [map fold_left]. rewrite app_nil_r. exact Hi.
    - inversion Hl as [|? ? Fx Hr]; subst. inversion Hrg as [|? ? Rx Hrr]; subst.
      cbn [map scan_states fold_left] in *. cbn [length] in Hb.
      inversion Hf as [|? ? Hf1 Hfr]; subst.
      change (pre ++ FR x :: map FR r) with (pre ++ ([FR x] ++ map FR r)). rewrite app_assoc.
      apply IH; try assumption.
      + apply winv_step; try assumption. lia.
      + rewrite len_snoc. lia.
  Qed.

  (* the state after the whole (non-empty) list *)
  Lemma winv_run (h : hints) (l : list pfloat) :
    l <> [] -> Forall ffin l -> Forall (fun x => lo <= FR x <= hi) l -> (Z.of_nat (length l) < 2 ^ 53)%Z ->
    Forall state_fin (scan_states (wstep (FA h)) (wseed (FA h)) (map NF l)) ->
    winv (map FR l) (fold_left (wstep (FA h)) (map NF l) (wseed (FA h))).
  Proof.
    intros Hne Hl Hrg Hb Hf. destruct l as [|x r]; [congruence|].
    inversion Hl as [|? ? Fx Hr]; subst. inversion Hrg as [|? ? Rx Hrr]; subst.
    cbn [map scan_states fold_left] in *. inversion Hf as [|? ? Hf1 Hfr]; subst.
    change (FR x :: map FR r) with ([FR x] ++ map FR r).
    apply winv_fold; try assumption.
    - change (wstep (FA h) (wseed (FA h)) (NF x)) with (@pair (option num * num) Z (Some (NF x), NI 0) 1%Z).
      unfold winv. exists x. cbn [length to_f]. rewrite meanR_one, ssdR_one, wEb_1, wFb_1, f_of_Z_zero, FR_zero.
      replace (FR x - FR x) with 0 by ring. replace (0 - 0) with 0 by ring. rewrite Rabs_R0.
      repeat split; try lra; try lia; try assumption; reflexivity.
  Qed.

  (* every streaming state *)
  Lemma winv_states (h : hints) (l : list pfloat) :
    Forall ffin l -> Forall (fun x => lo <= FR x <= hi) l -> (Z.of_nat (length l) < 2 ^ 53)%Z ->
    Forall state_fin (scan_states (wstep (FA h)) (wseed (FA h)) (map NF l)) ->
    Forall2 (fun st i => winv (firstn i (map FR l)) st)
            (scan_states (wstep (FA h)) (wseed (FA h)) (map NF l)) (seq 1 (length l)).
  Proof.
    intros Hl Hrg Hb Hf. rewrite scan_states_prefix, map_length.
    assert (G : forall idx : list nat, Forall (fun i => 1 <= i <= length l)%nat idx ->
      Forall2 (fun st i => winv (firstn i (map FR l)) st)
        (map (fun i => fold_left (wstep (FA h)) (firstn i (map NF l)) (wseed (FA h))) idx) idx).
    { induction idx as [|i idx IH]; intros Hr; [constructor|]. inversion Hr as [|? ? Hi Hr']; subst.
      cbn [map]. constructor; [|apply IH; exact Hr'].
      assert (Hlen : length (firstn i l) = i) by (apply firstn_length_le; lia).
      rewrite !firstn_map. apply winv_run.
      - intro E. rewrite E in Hlen. cbn in Hlen. lia.
      - apply Forall_firstn. exact Hl.
      - apply Forall_firstn. exact Hrg.
      - rewrite Hlen. lia.
      - rewrite <- firstn_map, scan_states_firstn. apply Forall_firstn. exact Hf. }
    apply G. apply Forall_forall. intros i Hi. apply in_seq in Hi. lia.
  Qed.
End Step.

Arguments winv lo hi A Rr pre st : rename.

(* the emitted value: 0.0 for one item, otherwise one more division by float(k-1) *)
Lemma wout_err (lo hi A Rr : R) (h : hints) (pre : list R) (st : wstate (FA h)) :
  winv lo hi A Rr pre st -> (Z.of_nat (length pre) < 2 ^ 53)%Z ->
  exists f, wout (FA h) st = NF f /\ ffin f /\ 0 <= FR f /\
    ((2 <= length pre)%nat ->
      Rabs (FR f - ssdR pre / INR (length pre - 1))
      <= wFb A Rr pre (length pre) / INR (length pre - 1) * (1 + u53)
         + u53 * (ssdR pre / INR (length pre - 1)) + eta64).
Proof.
  destruct st as [[mo s] k]. intros (m & -> & Fm & Fs & Hs & Hk & Hn & Rm & HE & HF) Hb.
  destruct (nn_out h (Some (NF m), s, k)) as (f & Ef & Ff & Pf).
  { unfold nn. split; [exists m; split; [reflexivity|exact Fm]|]. split; [exact Fs|]. split; [exact Hs|lia]. }
  { cbn [snd]. lia. }
  exists f. split; [exact Ef|]. split; [exact Ff|]. split; [exact Pf|]. intro H2.
  cbn [wout fzero div of_int FA ndiv to_f] in Ef.
  destruct (k <? 2)%Z eqn:E; [apply Z.ltb_lt in E; lia|].
  injection Ef as <-.
  destruct (f_of_Z_exact (k - 1)) as (Fk & Ek); [lia|].
  assert (HkI : IZR (k - 1) = INR (length pre - 1)).
  { rewrite Hk. replace (Z.of_nat (length pre) - 1)%Z with (Z.of_nat (length pre - 1)) by lia.
    symmetry. apply INR_IZR_INZ. }
  assert (Hpos : 0 < INR (length pre - 1)) by (apply lt_0_INR; lia).
  destruct (div_finite_error (to_f s) (f_of_Z (k - 1)) Fs Fk) as (e & hh & Be & Bh & Eq).
  { rewrite Ek, HkI. lra. }
  { exact Ff. }
  rewrite Ek, HkI in Eq.
  apply (out_bound u53 eta64 (FR (to_f s)) (ssdR pre) (wFb A Rr pre (length pre)) (INR (length pre - 1)) e hh);
    try assumption.
  - apply u53_pos.
  - apply ssdR_nonneg.
Qed.

Lemma Forall2_map_in {X Y Z' : Type} (f : X -> Z') (R1 : X -> Y -> Prop) (R2 : Z' -> Y -> Prop) :
  forall (l : list X) (l' : list Y), (forall a b, In b l' -> R1 a b -> R2 (f a) b) ->
  Forall2 R1 l l' -> Forall2 R2 (map f l) l'.
Proof.
  intros l l' H F. induction F as [|a b l l' Hab F IH]; [constructor|].
  cbn [map]. constructor; [apply H; [left; reflexivity|exact Hab]|].
  apply IH. intros a' b' Hin. apply H. right. exact Hin.
Qed.

(* ---- closed forms: sigma_k is non-decreasing, g k is non-decreasing, hence
        Fb k <= (1 + u)^(k-1) (k-1) (g (k-1) + u sigma_k) ---- *)
Lemma weps_nonneg (A Rr : R) : 0 <= A -> 0 <= Rr -> 0 <= weps A Rr.
Proof.
  intros HA HRr. unfold weps. pose proof u53_pos as U. pose proof eta64_pos as H.
  assert (0 <= u53 * A) by (apply Rmult_le_pos; assumption).
  assert (0 <= u53 * Rr) by (apply Rmult_le_pos; assumption). lra.
Qed.
Lemma wEb_nonneg (A Rr : R) (k : nat) : 0 <= A -> 0 <= Rr -> 0 <= wEb A Rr k.
Proof. intros HA HRr. unfold wEb. apply Rmult_le_pos; [apply pos_INR|apply weps_nonneg; assumption]. Qed.
Lemma wEb_mono (A Rr : R) (j k : nat) : 0 <= A -> 0 <= Rr -> (j <= k)%nat -> wEb A Rr j <= wEb A Rr k.
Proof.
  intros HA HRr H. unfold wEb. apply Rmult_le_compat_r; [apply weps_nonneg; assumption|]. apply le_INR. lia.
Qed.
Lemma wg_mono (A Rr : R) (j k : nat) : 0 <= A -> 0 <= Rr -> (j <= k)%nat -> wg A Rr j <= wg A Rr k.
Proof.
  intros HA HRr H. unfold wg.
  pose proof (wEb_mono A Rr j k HA HRr H) as M1.
  assert (M2 : wEb A Rr (S j) <= wEb A Rr (S k)) by (apply wEb_mono; try assumption; lia).
  pose proof (wEb_nonneg A Rr j HA HRr) as P1. pose proof (wEb_nonneg A Rr (S j) HA HRr) as P2.
  assert (B1 : Rr * (wEb A Rr j + wEb A Rr (S j)) <= Rr * (wEb A Rr k + wEb A Rr (S k))).
  { apply Rmult_le_compat_l; lra. }
  assert (B2 : wEb A Rr j * wEb A Rr (S j) <= wEb A Rr k * wEb A Rr (S k)).
  { apply Rmult_le_compat; assumption. }
  lra.
Qed.
Lemma wg_nonneg (A Rr : R) (k : nat) : 0 <= A -> 0 <= Rr -> 0 <= wg A Rr k.
Proof.
  intros HA HRr. unfold wg. pose proof u53_pos as U. pose proof eta64_pos as H.
  pose proof (wEb_nonneg A Rr k HA HRr) as P1. pose proof (wEb_nonneg A Rr (S k) HA HRr) as P2.
  assert (0 <= 4 * u53 * (Rr * Rr)) by (apply Rmult_le_pos; [lra|apply Rmult_le_pos; assumption]).
  assert (0 <= Rr * (wEb A Rr k + wEb A Rr (S k))) by (apply Rmult_le_pos; lra).
  assert (0 <= wEb A Rr k * wEb A Rr (S k)) by (apply Rmult_le_pos; assumption).
  lra.
Qed.
Lemma wEb_closed (A Rr : R) (k : nat) : (1 <= k)%nat -> wEb A Rr k = (INR k - 1) * weps A Rr.
Proof. intro H. unfold wEb. rewrite minus_INR by exact H. reflexivity. Qed.
Lemma wg_closed (A Rr : R) (k : nat) : (1 <= k)%nat ->
  wg A Rr k = 4 * u53 * (Rr * Rr) + eta64 + Rr * ((2 * INR k - 1) * weps A Rr)
              + (INR k - 1) * INR k * (weps A Rr * weps A Rr).
Proof.
  intro H. unfold wg. rewrite (wEb_closed A Rr k H), (wEb_closed A Rr (S k)) by lia. rewrite S_INR. ring.
Qed.

Lemma firstn_S_snoc {X} : forall (j : nat) (xs : list X), (j < length xs)%nat ->
  exists x, firstn (S j) xs = firstn j xs ++ [x].
Proof.
  induction j as [|j IH]; intros xs H.
  - destruct xs as [|a r]; [cbn in H; lia|]. exists a. reflexivity.
  - destruct xs as [|a r]; [cbn in H; lia|]. cbn [length] in H.
    destruct (IH r) as (x & E); [lia|]. exists x.
    change (firstn (S (S j)) (a :: r)) with (a :: firstn (S j) r). rewrite E. reflexivity.
Qed.
Lemma ssd_firstn_mono (xs : list R) (j : nat) : (1 <= j)%nat ->
  forall k : nat, (j <= k)%nat -> (k <= length xs)%nat -> ssdR (firstn j xs) <= ssdR (firstn k xs).
Proof.
  intros Hj. induction k as [|k IH]; intros Hjk Hk; [lia|].
  destruct (Nat.eq_dec j (S k)) as [->|Hne]; [apply Rle_refl|].
  apply Rle_trans with (ssdR (firstn k xs)); [apply IH; lia|].
  destruct (firstn_S_snoc k xs) as (x & E); [lia|]. rewrite E. apply ssdR_snoc_le.
  rewrite firstn_length_le by lia. lia.
Qed.

Lemma wFb_closed_aux (A Rr : R) (xs : list R) (G Sg : R) : 0 <= G -> 0 <= Sg ->
  forall k : nat, (1 <= k)%nat ->
  (forall j, (1 <= j < k)%nat -> wg A Rr j <= G) ->
  (forall j, (2 <= j <= k)%nat -> ssdR (firstn j xs) <= Sg) ->
  wFb A Rr xs k <= (1 + u53) ^ (k - 1) * (INR (k - 1) * (G + u53 * Sg)).
Proof.
  intros HG HSg. pose proof u53_pos as U.
  induction k as [|k IH]; intros Hk Hg Hs; [lia|].
  destruct k as [|j].
  - rewrite wFb_1. simpl. lra.
  - rewrite wFb_SS. replace (S (S j) - 1)%nat with (S j) by lia.
    assert (IH' : wFb A Rr xs (S j) <= (1 + u53) ^ j * (INR j * (G + u53 * Sg))).
    { replace j with (S j - 1)%nat at 2 3 by lia. apply IH; [lia| |]; intros i Hi; [apply Hg|apply Hs]; lia. }
    assert (Hgj : wg A Rr (S j) <= G) by (apply Hg; lia).
    assert (Hsj : ssdR (firstn (S (S j)) xs) <= Sg) by (apply Hs; lia).
    set (F := wFb A Rr xs (S j)) in *. set (g := wg A Rr (S j)) in *. set (sg := ssdR (firstn (S (S j)) xs)) in *.
    set (P := (1 + u53) ^ j) in *. set (C := G + u53 * Sg) in *. set (n := INR j) in *.
    assert (HP : 1 <= P) by (apply pow_R1_Rle; lra).
    assert (HC : 0 <= C) by (unfold C; assert (0 <= u53 * Sg) by (apply Rmult_le_pos; assumption); lra).
    rewrite S_INR. fold n. cbn [pow]. fold P.
    assert (H1 : (F + g) * (1 + u53) <= (P * (n * C) + G) * (1 + u53)) by (apply Rmult_le_compat_r; lra).
    assert (H3 : u53 * sg <= u53 * Sg) by (apply Rmult_le_compat_l; assumption).
    assert (H4 : G * (1 + u53) + u53 * Sg <= (1 + u53) * C).
    { unfold C. assert (0 <= u53 * (u53 * Sg)) by (apply Rmult_le_pos; [|apply Rmult_le_pos]; assumption).
      replace ((1 + u53) * (G + u53 * Sg)) with (G * (1 + u53) + u53 * Sg + u53 * (u53 * Sg)) by ring. lra. }
    assert (H5 : (1 + u53) * C * 1 <= (1 + u53) * C * P).
    { apply Rmult_le_compat_l; [apply Rmult_le_pos; lra|exact HP]. }
    replace ((1 + u53) * P * ((n + 1) * C)) with ((P * (n * C)) * (1 + u53) + (1 + u53) * C * P) by ring.
    replace ((P * (n * C) + G) * (1 + u53)) with ((P * (n * C)) * (1 + u53) + G * (1 + u53)) in H1 by ring.
    lra.
Qed.

(* ================= the theorems =================
   l: the items (finite binary64 floats), X_i = FR (nth i l) their real values, xs = map FR l.
   lo <= X_i <= hi, hi - lo <= R, -A <= lo, hi <= A.
   mu_k = meanR (firstn k xs), sigma_k = ssdR (firstn k xs): exact mean and exact sum of squared deviations from
   mu_k of the first k items.  wEb A R k = (k-1) (u A + 2 u R + eta);  wFb A R xs k: the recursion in the header. *)

(* (1) every Welford state (m, s, k) the model goes through has count k, mean within (k-1) eps of mu_k and
       sum of squared deviations within Fb k of sigma_k *)
Theorem welford_state_error (h : hints) (l : list pfloat) (lo hi A Rr : R) :
  - A <= lo -> hi <= A -> hi - lo <= Rr ->
  Forall ffin l -> Forall (fun x => lo <= FR x <= hi) l -> (Z.of_nat (length l) < 2 ^ 53)%Z ->
  Forall state_fin (scan_states (wstep (FA h)) (wseed (FA h)) (map NF l)) ->
  Forall2 (fun (st : wstate (FA h)) (k : nat) =>
             exists m s, st = (Some (NF m), s, Z.of_nat k) /\ lo <= FR m <= hi /\ 0 <= FR (to_f s) /\
               Rabs (FR m - meanR (firstn k (map FR l))) <= wEb A Rr k /\
               Rabs (FR (to_f s) - ssdR (firstn k (map FR l))) <= wFb A Rr (map FR l) k)
          (scan_states (wstep (FA h)) (wseed (FA h)) (map NF l)) (seq 1 (length l)).
Proof.
  intros HloA HhiA HR Hl Hrg Hb Hf.
  pose proof (winv_states lo hi A Rr HloA HhiA HR h l Hl Hrg Hb Hf) as W.
  rewrite <- (map_id (scan_states (wstep (FA h)) (wseed (FA h)) (map NF l))).
  eapply Forall2_map_in; [|exact W]. intros [[mo s] k0] k Hin (m & -> & Fm & Fs & Hs & Hk & Hn & Rm & HE & HF).
  apply in_seq in Hin.
  assert (Hlen : length (firstn k (map FR l)) = k) by (apply firstn_length_le; rewrite map_length; lia).
  rewrite Hlen in *. rewrite wFb_firstn in HF.
  exists m, s. subst k0. repeat split; try assumption; lra.
Qed.

(* (2) the emitted variances, reduce = False: the k-th value is 0.0 for k = 1 and for k >= 2 approximates the exact
       sample variance sigma_k / (k-1) of the first k items *)
Theorem welford_variance_error (h : hints) (l : list pfloat) (lo hi A Rr : R) :
  - A <= lo -> hi <= A -> hi - lo <= Rr ->
  Forall ffin l -> Forall (fun x => lo <= FR x <= hi) l -> (Z.of_nat (length l) < 2 ^ 53)%Z ->
  Forall state_fin (scan_states (wstep (FA h)) (wseed (FA h)) (map NF l)) ->
  Forall2 (fun (v : num) (k : nat) =>
             exists f, v = NF f /\ ffin f /\ 0 <= FR f /\
               ((2 <= k)%nat ->
                Rabs (FR f - ssdR (firstn k (map FR l)) / INR (k - 1))
                <= wFb A Rr (map FR l) k / INR (k - 1) * (1 + u53)
                   + u53 * (ssdR (firstn k (map FR l)) / INR (k - 1)) + eta64))
          (variance_run (FA h) false (map NF l)) (seq 1 (length l)).
Proof.
  intros HloA HhiA HR Hl Hrg Hb Hf.
  pose proof (winv_states lo hi A Rr HloA HhiA HR h l Hl Hrg Hb Hf) as W.
  unfold variance_run, scan_run.
  eapply Forall2_map_in; [|exact W]. intros st k Hin Hw. apply in_seq in Hin.
  assert (Hlen : length (firstn k (map FR l)) = k) by (apply firstn_length_le; rewrite map_length; lia).
  destruct (wout_err lo hi A Rr h _ st Hw) as (f & Ef & Ff & Pf & B); [rewrite Hlen; lia|].
  rewrite Hlen, wFb_firstn in B. exists f. repeat split; assumption.
Qed.

(* (3) reduce = True: the single value emitted at completion, against the sample variance of the whole list *)
Theorem welford_variance_reduce_error (h : hints) (l : list pfloat) (lo hi A Rr : R) :
  - A <= lo -> hi <= A -> hi - lo <= Rr -> l <> [] ->
  Forall ffin l -> Forall (fun x => lo <= FR x <= hi) l -> (Z.of_nat (length l) < 2 ^ 53)%Z ->
  Forall state_fin (scan_states (wstep (FA h)) (wseed (FA h)) (map NF l)) ->
  exists f, variance_run (FA h) true (map NF l) = [NF f] /\ ffin f /\ 0 <= FR f /\
    ((2 <= length l)%nat ->
     Rabs (FR f - ssdR (map FR l) / INR (length l - 1))
     <= wFb A Rr (map FR l) (length l) / INR (length l - 1) * (1 + u53)
        + u53 * (ssdR (map FR l) / INR (length l - 1)) + eta64).
Proof.
  intros HloA HhiA HR Hne Hl Hrg Hb Hf.
  pose proof (winv_run lo hi A Rr HloA HhiA HR h l Hne Hl Hrg Hb Hf) as W.
  destruct (wout_err lo hi A Rr h _ _ W) as (f & Ef & Ff & Pf & B); [rewrite map_length; lia|].
  rewrite map_length in B. exists f. unfold variance_run, scan_run. cbn [map]. rewrite Ef.
  repeat split; assumption.
Qed.

(* (4) closed forms.  Eb k = (k-1) eps by definition; g k is explicit (wg_closed); and since sigma_j and g j are
       non-decreasing in j,   Fb k <= (1 + u)^(k-1) (k-1) (g (k-1) + u sigma_k) *)
Theorem wFb_closed (A Rr : R) (xs : list R) (k : nat) : 0 <= A -> 0 <= Rr -> (1 <= k <= length xs)%nat ->
  wFb A Rr xs k <= (1 + u53) ^ (k - 1) * (INR (k - 1) * (wg A Rr (k - 1) + u53 * ssdR (firstn k xs))).
Proof.
  intros HA HRr Hk. apply wFb_closed_aux.
  - apply wg_nonneg; assumption.
  - apply ssdR_nonneg.
  - lia.
  - intros j Hj. apply wg_mono; try assumption. lia.
  - intros j Hj. apply ssd_firstn_mono; lia.
Qed.

(* (5) the streaming bound of (2) with the closed form of (4) substituted: for k >= 2
         |v_k - sigma_k/(k-1)| <= (1 + u)^k (g (k-1) + u sigma_k) + u sigma_k/(k-1) + eta *)
Theorem welford_variance_error_closed (h : hints) (l : list pfloat) (lo hi A Rr : R) :
  - A <= lo -> hi <= A -> hi - lo <= Rr ->
  Forall ffin l -> Forall (fun x => lo <= FR x <= hi) l -> (Z.of_nat (length l) < 2 ^ 53)%Z ->
  Forall state_fin (scan_states (wstep (FA h)) (wseed (FA h)) (map NF l)) ->
  Forall2 (fun (v : num) (k : nat) =>
             exists f, v = NF f /\ ffin f /\ 0 <= FR f /\
               ((2 <= k)%nat ->
                Rabs (FR f - ssdR (firstn k (map FR l)) / INR (k - 1))
                <= (1 + u53) ^ k * (wg A Rr (k - 1) + u53 * ssdR (firstn k (map FR l)))
                   + u53 * (ssdR (firstn k (map FR l)) / INR (k - 1)) + eta64))
          (variance_run (FA h) false (map NF l)) (seq 1 (length l)).
Proof.
  intros HloA HhiA HR Hl Hrg Hb Hf.
  pose proof (welford_variance_error h l lo hi A Rr HloA HhiA HR Hl Hrg Hb Hf) as W.
  rewrite <- (map_id (variance_run (FA h) false (map NF l))).
  eapply Forall2_map_in; [|exact W]. intros v k Hin (f & -> & Ff & Pf & B). apply in_seq in Hin.
  exists f. split; [reflexivity|]. split; [exact Ff|]. split; [exact Pf|]. intro H2. specialize (B H2).
  assert (Hbox : lo <= hi).
  { destruct l as [|x r]; [cbn in Hin; lia|]. inversion Hrg; subst. lra. }
  assert (HA : 0 <= A) by lra. assert (HRr : 0 <= Rr) by lra.
  pose proof (wFb_closed A Rr (map FR l) k HA HRr) as C. rewrite map_length in C.
  assert (Hk : (1 <= k <= length l)%nat) by lia. specialize (C Hk).
  eapply Rle_trans; [exact B|]. apply Rplus_le_compat_r, Rplus_le_compat_r.
  assert (Hn : 0 < INR (k - 1)) by (apply lt_0_INR; lia).
  set (n := INR (k - 1)) in *. set (F := wFb A Rr (map FR l) k) in *.
  set (Cc := wg A Rr (k - 1) + u53 * ssdR (firstn k (map FR l))) in *.
  replace k with (S (k - 1)) at 1 by lia. cbn [pow]. set (P := (1 + u53) ^ (k - 1)) in *.
  assert (Hin' : 0 < / n) by (apply Rinv_0_lt_compat; exact Hn).
  assert (H1 : F * / n <= (P * (n * Cc)) * / n) by (apply Rmult_le_compat_r; lra).
  replace ((P * (n * Cc)) * / n) with (P * Cc) in H1 by (field; lra).
  pose proof u53_pos as U.
  assert (H3 : (F * / n) * (1 + u53) <= (P * Cc) * (1 + u53)) by (apply Rmult_le_compat_r; lra).
  unfold Rdiv. lra.
Qed.
