(* C12, floating point: items that are Python ints mixed with floats.
   Under explicit side conditions (the int values that meet another int in an exact int operation are below 2^53 in
   magnitude, as well as the results of those operations), the run of sum / mean / min / max / variance / stddev on a
   MIXED list of numbers (NI z | NF f) equals the run on the list of binary64 floats obtained by converting every
   int with float(z) = f_of_Z z:   int + int and int - int are exact, and equal - bit for bit, signed zeros
   included - the float operation on the converted operands; int < int compares as the converted floats do; every
   other operation of the model converts its int operand anyway.
   Hence the binary64 error bounds proved for lists of floats transfer to mixed lists (corollaries at the end).
   NOT covered: the two-pass formal variance / stddev (CPython's builtin sum adds int items uncompensated once a
   float has been seen, float items compensated: converting the ints changes the algorithm). *)
From Coq Require Import List ZArith Reals Lra Lia Floats Bool.
From Flocq Require Import Core BinarySingleNaN PrimFloat.
From RxVerif Require Import Math.Exact Math.FloatModel Math.SumErrorProofs Math.MeanErrorProofs Math.FloatOpsProofs
  Math.VarianceNonnegProofs Math.WelfordReal Math.WelfordErrorProofs Math.StddevErrorProofs Math.MinMaxFloatProofs.
Import ListNotations.
Open Scope R_scope.

Definition small (z : Z) : Prop := (Z.abs z < 2 ^ 53)%Z.

(* ---- float(z) for |z| < 2^53 ---- *)
Lemma f_of_Z_neg (z : Z) : (z < 0)%Z -> f_of_Z z = (- f_of_Z (- z))%float.
Proof.
  intro H. unfold f_of_Z. destruct (z <? 0)%Z eqn:E1; [|apply Z.ltb_ge in E1; lia].
  destruct (- z <? 0)%Z eqn:E2; [apply Z.ltb_lt in E2; lia|]. reflexivity.
Qed.

Lemma f_of_Z_small (z : Z) : small z -> ffin (f_of_Z z) /\ FR (f_of_Z z) = IZR z.
Proof.
  intro H. unfold small in H. destruct (Z_lt_le_dec z 0) as [Hn|Hp].
  - rewrite (f_of_Z_neg z Hn). destruct (f_of_Z_exact (- z)) as (F & E); [lia|]. split.
    + apply ffin_equiv. rewrite opp_equiv, is_finite_Bopp. apply ffin_equiv. exact F.
    + unfold FR in *. rewrite opp_equiv, B2R_Bopp, E, opp_IZR. ring.
  - apply f_of_Z_exact. lia.
Qed.

Lemma sign_of_R (x : binary_float prec emax) : is_finite x = true -> B2R x <> 0 -> Bsign x = Rlt_bool (B2R x) 0.
Proof.
  destruct x as [s|s| |s m e B]; intros Hf Hne; try discriminate; [exfalso; apply Hne; reflexivity|].
  cbn [Bsign B2R]. destruct s.
  - symmetry. apply Rlt_bool_true. apply F2R_lt_0. cbn. lia.
  - symmetry. apply Rlt_bool_false. apply Rlt_le. apply F2R_gt_0. cbn. lia.
Qed.

Lemma f_of_Z_sign (z : Z) : small z -> Bsign (Prim2B (f_of_Z z)) = (z <? 0)%Z.
Proof.
  intro H. destruct (Z.eq_dec z 0) as [->|Hne].
  - rewrite f_of_Z_zero, zero_equiv, Prim2B_B2Prim. reflexivity.
  - destruct (f_of_Z_small z H) as (F & E). apply ffin_equiv in F. unfold FR in E.
    rewrite (sign_of_R _ F) by (rewrite E; apply not_0_IZR; exact Hne). rewrite E.
    destruct (Rlt_bool_spec (IZR z) 0) as [L|L]; destruct (Z.ltb_spec z 0) as [L'|L']; try reflexivity.
    + apply (lt_IZR z 0) in L. lia.
    + apply IZR_lt in L'. lra.
Qed.

Lemma float_ext (x y : pfloat) : ffin x -> ffin y -> FR x = FR y -> Bsign (Prim2B x) = Bsign (Prim2B y) -> x = y.
Proof.
  intros Fx Fy E S. apply Prim2B_inj. apply ffin_equiv in Fx, Fy. apply B2R_Bsign_inj; assumption.
Qed.

Lemma int_format (z : Z) : small z -> F64 (IZR z).
Proof.
  intro H. apply generic_format_FLT. exists (Float radix2 z 0).
  - unfold F2R. simpl. lra.
  - simpl. exact H.
  - simpl. unfold emax, prec. lia.
Qed.
Lemma int_in_range (z : Z) : small z -> Rabs (RND (IZR z)) < bpow radix2 emax.
Proof.
  intro H. rewrite (RND_gen _ (int_format z H)), <- abs_IZR.
  apply Rlt_le_trans with (IZR (2 ^ 53)); [apply IZR_lt; exact H|].
  change (bpow radix2 emax) with (IZR (Z.pow_pos 2 1024)). apply IZR_le.
  change (Z.pow_pos 2 1024) with (2 ^ 1024)%Z. apply Z.pow_le_mono_r; lia.
Qed.

(* int + int is the float addition of the converted operands, bit for bit *)
Lemma f_of_Z_add (a b : Z) : small a -> small b -> small (a + b) ->
  f_of_Z (a + b) = (f_of_Z a + f_of_Z b)%float.
Proof.
  intros Ha Hb Hab. destruct (f_of_Z_small a Ha) as (Fa & Ea). destruct (f_of_Z_small b Hb) as (Fb & Eb).
  destruct (f_of_Z_small (a + b) Hab) as (Fs & Es).
  pose proof (f_of_Z_sign a Ha) as Sa. pose proof (f_of_Z_sign b Hb) as Sb. pose proof (f_of_Z_sign _ Hab) as Ss.
  apply ffin_equiv in Fa, Fb. unfold FR in Ea, Eb.
  pose proof (Bplus_correct prec emax Hprec Hmax mode_NE (Prim2B (f_of_Z a)) (Prim2B (f_of_Z b)) Fa Fb) as C.
  rewrite Ea, Eb, <- plus_IZR in C. rewrite Rlt_bool_true in C by (apply int_in_range; exact Hab).
  destruct C as (C1 & C2 & C3). change (round radix2 _ _ (IZR (a + b))) with (RND (IZR (a + b))) in C1.
  rewrite (RND_gen _ (int_format _ Hab)) in C1.
  apply float_ext.
  - exact Fs.
  - apply ffin_equiv. rewrite add_equiv. exact C2.
  - rewrite Es. unfold FR. rewrite add_equiv. symmetry. exact C1.
  - rewrite add_equiv, C3, Ss, Sa, Sb.
    destruct (Rcompare_spec (IZR (a + b)) 0) as [L|L|L].
    + apply (lt_IZR _ 0) in L. apply Z.ltb_lt. exact L.
    + apply (eq_IZR _ 0) in L. rewrite L.
      destruct (Z.ltb_spec a 0), (Z.ltb_spec b 0); try reflexivity. lia.
    + apply (lt_IZR 0) in L. apply Z.ltb_ge. lia.
Qed.

Lemma f_of_Z_sub (a b : Z) : small a -> small b -> small (a - b) ->
  f_of_Z (a - b) = (f_of_Z a - f_of_Z b)%float.
Proof.
  intros Ha Hb Hab. destruct (f_of_Z_small a Ha) as (Fa & Ea). destruct (f_of_Z_small b Hb) as (Fb & Eb).
  destruct (f_of_Z_small (a - b) Hab) as (Fs & Es).
  pose proof (f_of_Z_sign a Ha) as Sa. pose proof (f_of_Z_sign b Hb) as Sb. pose proof (f_of_Z_sign _ Hab) as Ss.
  apply ffin_equiv in Fa, Fb. unfold FR in Ea, Eb.
  pose proof (Bminus_correct prec emax Hprec Hmax mode_NE (Prim2B (f_of_Z a)) (Prim2B (f_of_Z b)) Fa Fb) as C.
  rewrite Ea, Eb, <- minus_IZR in C. rewrite Rlt_bool_true in C by (apply int_in_range; exact Hab).
  destruct C as (C1 & C2 & C3). change (round radix2 _ _ (IZR (a - b))) with (RND (IZR (a - b))) in C1.
  rewrite (RND_gen _ (int_format _ Hab)) in C1.
  apply float_ext.
  - exact Fs.
  - apply ffin_equiv. rewrite sub_equiv. exact C2.
  - rewrite Es. unfold FR. rewrite sub_equiv. symmetry. exact C1.
  - rewrite sub_equiv, C3, Ss, Sa, Sb.
    destruct (Rcompare_spec (IZR (a - b)) 0) as [L|L|L].
    + apply (lt_IZR _ 0) in L. apply Z.ltb_lt. exact L.
    + apply (eq_IZR _ 0) in L. rewrite L.
      destruct (Z.ltb_spec a 0), (Z.ltb_spec b 0); try reflexivity; lia.
    + apply (lt_IZR 0) in L. apply Z.ltb_ge. lia.
Qed.

(* int < int compares as the converted floats *)
Lemma f_of_Z_ltb (a b : Z) : small a -> small b -> (f_of_Z a <? f_of_Z b)%float = (a <? b)%Z.
Proof.
  intros Ha Hb. destruct (f_of_Z_small a Ha) as (Fa & Ea). destruct (f_of_Z_small b Hb) as (Fb & Eb).
  apply ffin_equiv in Fa, Fb. unfold FR in Ea, Eb. rewrite ltb_equiv, (Bltb_correct _ _ _ _ Fa Fb), Ea, Eb.
  destruct (Rlt_bool_spec (IZR a) (IZR b)) as [L|L]; destruct (Z.ltb_spec a b) as [L'|L']; try reflexivity.
  - apply lt_IZR in L. lia.
  - apply IZR_lt in L'. lra.
Qed.

(* ---- numbers of the model ---- *)
Definition to_fl (n : num) : num := NF (to_f n).
(* value equality: the same binary64 float after conversion (bit for bit) *)
Definition veq (a b : num) : Prop := to_f a = to_f b.
Definition oveq (a b : option num) : Prop :=
  match a, b with None, None => True | Some x, Some y => veq x y | _, _ => False end.
Definition small_num (n : num) : Prop := match n with NI z => small z | NF _ => True end.

Definition add_ok (a b : num) : Prop :=
  match a, b with NI x, NI y => small x /\ small y /\ small (x + y) | _, _ => True end.
Definition sub_ok (a b : num) : Prop :=
  match a, b with NI x, NI y => small x /\ small y /\ small (x - y) | _, _ => True end.

Lemma to_fl_map (l : list num) : map to_fl l = map NF (map to_f l).
Proof. rewrite map_map. reflexivity. Qed.
Lemma to_f_NI (z : Z) : small z -> ffin (to_f (NI z)) /\ FR (to_f (NI z)) = IZR z.
Proof. apply f_of_Z_small. Qed.

Lemma nadd_conv (a b : num) : add_ok a b -> to_f (nadd a b) = (to_f a + to_f b)%float.
Proof. destruct a, b; cbn [add_ok nadd to_f]; try reflexivity. intros (H1 & H2 & H3). apply f_of_Z_add; assumption. Qed.
Lemma nsub_conv (a b : num) : sub_ok a b -> to_f (nsub a b) = (to_f a - to_f b)%float.
Proof. destruct a, b; cbn [sub_ok nsub to_f]; try reflexivity. intros (H1 & H2 & H3). apply f_of_Z_sub; assumption. Qed.
Lemma nltb_conv (a b : num) : small_num a -> small_num b -> nltb a b = (to_f a <? to_f b)%float.
Proof. destruct a, b; cbn [small_num nltb to_f]; try reflexivity. intros H1 H2. symmetry. apply f_of_Z_ltb; assumption. Qed.

Lemma nadd_NF_r (a : num) (f : pfloat) : nadd a (NF f) = NF (to_f a + f)%float.
Proof. destruct a; reflexivity. Qed.
Lemma nadd_NF_l (f : pfloat) (b : num) : nadd (NF f) b = NF (f + to_f b)%float.
Proof. destruct b; reflexivity. Qed.
Lemma nsub_NF_r (a : num) (f : pfloat) : nsub a (NF f) = NF (to_f a - f)%float.
Proof. destruct a; reflexivity. Qed.
Lemma nsub_NF_l (f : pfloat) (b : num) : nsub (NF f) b = NF (f - to_f b)%float.
Proof. destruct b; reflexivity. Qed.
Lemma nmul_NF_r (a : num) (f : pfloat) : nmul a (NF f) = NF (to_f a * f)%float.
Proof. destruct a; reflexivity. Qed.
Lemma nltb_NF_l (f : pfloat) (b : num) : nltb (NF f) b = (f <? to_f b)%float.
Proof. destruct b; reflexivity. Qed.
Lemma nltb_NF_r (a : num) (f : pfloat) : nltb a (NF f) = (to_f a <? f)%float.
Proof. destruct a; reflexivity. Qed.

(* ================= (1) sum: no side condition (the seed is the float 0.0) ================= *)
Lemma sum_from_float (h : hints) : forall (l : list num) (acc : pfloat),
  scan_states (sum_step (FA h)) (NF acc) l = scan_states (sum_step (FA h)) (NF acc) (map to_fl l)
  /\ fold_left (sum_step (FA h)) l (NF acc) = fold_left (sum_step (FA h)) (map to_fl l) (NF acc).
Proof.
  induction l as [|x r IH]; intro acc; [split; reflexivity|].
  cbn [map scan_states fold_left]. unfold sum_step at 1 3 4 6. cbn [add FA]. unfold to_fl at 1 2 3 5.
  rewrite !nadd_NF_l. cbn [to_f]. destruct (IH (acc + to_f x)%float) as (IH1 & IH2). rewrite IH1, IH2. split; reflexivity.
Qed.

Theorem mixed_sum_run (h : hints) (reduce : bool) (l : list num) :
  sum_run (FA h) reduce l = sum_run (FA h) reduce (map to_fl l).
Proof.
  unfold sum_run, scan_run. change (fzero (FA h)) with (NF zero). destruct (sum_from_float h l zero) as (H1 & H2).
  destruct reduce; [rewrite H2|rewrite H1]; reflexivity.
Qed.

(* ================= (2) mean ================= *)
(* side condition: in the leading run of int items, every item and every partial sum (starting from s) is below
   2^53 in magnitude; nothing is required from the first float item on *)
Fixpoint int_prefix_ok (s : Z) (l : list num) : Prop :=
  match l with
  | NI z :: r => small z /\ small (s + z) /\ int_prefix_ok (s + z) r
  | _ => True
  end.
Definition mean_ok (a : num) (l : list num) : Prop :=
  match a with NI s => small s /\ int_prefix_ok s l | NF _ => True end.

Lemma mean_out_veq (h : hints) (a c : num) (k : Z) : to_f a = to_f c ->
  mean_out (FA h) (a, k) = mean_out (FA h) (c, k).
Proof. intro E. unfold mean_out. cbn [fst snd div of_int FA]. unfold ndiv. rewrite E. reflexivity. Qed.

Lemma mean_add_step (a c i : num) (r : list num) : to_f a = to_f c -> mean_ok a (i :: r) ->
  to_f (nadd a i) = to_f (nadd c (to_fl i)) /\ mean_ok (nadd a i) r.
Proof.
  intros E Hok. unfold to_fl. rewrite nadd_NF_r. cbn [to_f]. rewrite <- E.
  destruct a as [s|f]; [destruct i as [z|g]|].
  - cbn [mean_ok int_prefix_ok] in Hok. destruct Hok as (Hs & Hz & Hsz & Hr).
    split; [apply nadd_conv; cbn [add_ok]; auto|]. cbn [nadd mean_ok]. auto.
  - split; [reflexivity|exact I].
  - rewrite nadd_NF_l. split; [reflexivity|exact I].
Qed.

Lemma mean_states (h : hints) : forall (l : list num) (a c : num) (k : Z),
  to_f a = to_f c -> mean_ok a l ->
  map (mean_out (FA h)) (scan_states (mean_step (FA h)) (a, k) l)
  = map (mean_out (FA h)) (scan_states (mean_step (FA h)) (c, k) (map to_fl l))
  /\ mean_out (FA h) (fold_left (mean_step (FA h)) l (a, k))
     = mean_out (FA h) (fold_left (mean_step (FA h)) (map to_fl l) (c, k)).
Proof.
  induction l as [|i r IH]; intros a c k E Hok.
  - cbn [map scan_states fold_left]. split; [reflexivity|apply mean_out_veq; exact E].
  - destruct (mean_add_step a c i r E Hok) as (E' & Hok').
    cbn [map scan_states fold_left].
    change (mean_step (FA h) (a, k) i) with (@pair num Z (nadd a i) (k + 1)%Z).
    change (mean_step (FA h) (c, k) (to_fl i)) with (@pair num Z (nadd c (to_fl i)) (k + 1)%Z).
    destruct (IH _ _ (k + 1)%Z E' Hok') as (IH1 & IH2). rewrite IH1, IH2, (mean_out_veq h _ _ _ E'). split; reflexivity.
Qed.

Theorem mixed_mean_run (h : hints) (reduce : bool) (l : list num) : int_prefix_ok 0 l ->
  mean_run (FA h) reduce l = mean_run (FA h) reduce (map to_fl l).
Proof.
  intro Hok. unfold mean_run, scan_run.
  destruct (mean_states h l (NI 0) (NI 0) 0%Z eq_refl) as (H1 & H2).
  { cbn [mean_ok]. split; [unfold small; cbn; lia|exact Hok]. }
  destruct reduce; cbn [map]; [f_equal; exact H2|exact H1].
Qed.

(* ================= (3) min / max ================= *)
(* side condition: every int item is below 2^53 in magnitude *)
Definition osmall (a : option num) : Prop := match a with Some x => small_num x | None => True end.

Lemma min_step_veq (h : hints) (a c : option num) (i : num) : oveq a c -> osmall a -> small_num i ->
  oveq (min_step (FA h) a i) (min_step (FA h) c (to_fl i)) /\ osmall (min_step (FA h) a i).
Proof.
  intros E Ha Hi. destruct a as [x|], c as [y|]; cbn [oveq] in E; try contradiction.
  - cbn [min_step ltb FA osmall] in *. unfold to_fl at 1. rewrite nltb_NF_l, (nltb_conv i x Hi Ha), E.
    destruct (to_f i <? to_f y)%float; cbn [oveq osmall]; split; auto. reflexivity.
  - cbn [min_step oveq osmall]. split; [reflexivity|exact Hi].
Qed.
Lemma max_step_veq (h : hints) (a c : option num) (i : num) : oveq a c -> osmall a -> small_num i ->
  oveq (max_step (FA h) a i) (max_step (FA h) c (to_fl i)) /\ osmall (max_step (FA h) a i).
Proof.
  intros E Ha Hi. destruct a as [x|], c as [y|]; cbn [oveq] in E; try contradiction.
  - cbn [max_step ltb FA osmall] in *. unfold to_fl at 1. rewrite nltb_NF_r, (nltb_conv x i Ha Hi), E.
    destruct (to_f y <? to_f i)%float; cbn [oveq osmall]; split; auto. reflexivity.
  - cbn [max_step oveq osmall]. split; [reflexivity|exact Hi].
Qed.

Lemma ostates_veq (stepf : option num -> num -> option num) :
  (forall a c i, oveq a c -> osmall a -> small_num i ->
                 oveq (stepf a i) (stepf c (to_fl i)) /\ osmall (stepf a i)) ->
  forall (l : list num) (a c : option num), oveq a c -> osmall a -> Forall small_num l ->
  Forall2 oveq (scan_states stepf a l) (scan_states stepf c (map to_fl l))
  /\ oveq (fold_left stepf l a) (fold_left stepf (map to_fl l) c).
Proof.
  intros Hstep. induction l as [|i r IH]; intros a c E Ha Hl.
  - cbn. split; [constructor|exact E].
  - inversion Hl as [|? ? Hi Hr]; subst. destruct (Hstep a c i E Ha Hi) as (E' & Ha').
    cbn [map scan_states fold_left]. destruct (IH _ _ E' Ha' Hr) as (IH1 & IH2). split; [constructor; assumption|exact IH2].
Qed.

Theorem mixed_min_run (h : hints) (reduce : bool) (l : list num) : Forall small_num l ->
  Forall2 oveq (min_run (FA h) reduce l) (min_run (FA h) reduce (map to_fl l)).
Proof.
  intro Hl. unfold min_run, scan_run.
  destruct (ostates_veq (min_step (FA h)) (min_step_veq h) l None None I I Hl) as (H1 & H2).
  destruct reduce; [constructor; [exact H2|constructor]|exact H1].
Qed.
Theorem mixed_max_run (h : hints) (reduce : bool) (l : list num) : Forall small_num l ->
  Forall2 oveq (max_run (FA h) reduce l) (max_run (FA h) reduce (map to_fl l)).
Proof.
  intro Hl. unfold max_run, scan_run.
  destruct (ostates_veq (max_step (FA h)) (max_step_veq h) l None None I I Hl) as (H1 & H2).
  destruct reduce; [constructor; [exact H2|constructor]|exact H1].
Qed.

(* ================= (4) Welford variance / stddev ================= *)
(* side condition: when the first two items are both ints, they and their difference are below 2^53 in magnitude
   (the only exact int operation of the whole run: i2 - i1; from then on the running mean is a float) *)
Definition var_side (l : list num) : Prop :=
  match l with NI a :: NI b :: _ => small a /\ small b /\ small (b - a) | _ => True end.

Definition wrel (st st' : wstate (FA [])) : Prop :=
  let '(m, s, k) := st in let '(m', s', k') := st' in oveq m m' /\ to_f s = to_f s' /\ k = k'.
Definition step_ok (st : wstate (FA [])) (i : num) : Prop :=
  match st with (Some m1, _, _) => sub_ok i m1 | _ => True end.
Fixpoint var_ok (h : hints) (st : wstate (FA h)) (l : list num) : Prop :=
  match l with [] => True | i :: r => step_ok st i /\ var_ok h (wstep (FA h) st i) r end.

Lemma wout_rel (h : hints) (st st' : wstate (FA h)) : wrel st st' -> wout (FA h) st = wout (FA h) st'.
Proof.
  destruct st as [[m s] k], st' as [[m' s'] k']. intros (_ & Es & <-). cbn [wout div of_int FA]. unfold ndiv.
  rewrite Es. reflexivity.
Qed.

Lemma wstep_some (h : hints) (m1 s : num) (k : Z) (i : num) :
  wstep (FA h) (Some m1, s, k) i
  = (Some (NF (to_f m1 + to_f (nsub i m1) / f_of_Z (k + 1))%float),
     NF (to_f s + to_f (nsub i m1) * (to_f i - (to_f m1 + to_f (nsub i m1) / f_of_Z (k + 1))))%float,
     (k + 1)%Z).
Proof.
  cbn [wstep add sub mul div of_int FA]. unfold ndiv. cbn [to_f].
  rewrite nadd_NF_r, nsub_NF_r, nmul_NF_r, nadd_NF_r. reflexivity.
Qed.

Lemma wstep_rel (h : hints) (st st' : wstate (FA h)) (i : num) : wrel st st' -> step_ok st i ->
  wrel (wstep (FA h) st i) (wstep (FA h) st' (to_fl i)).
Proof.
  destruct st as [[m s] k], st' as [[m' s'] k']. intros (Em & Es & <-) Hok.
  destruct m as [m1|], m' as [m1'|]; cbn [oveq] in Em; try contradiction.
  - cbn [step_ok] in Hok. rewrite !wstep_some. unfold to_fl at 1 3 4. rewrite nsub_NF_l. cbn [to_f].
    rewrite (nsub_conv i m1 Hok). unfold veq in Em. rewrite Em, Es. cbn [wrel oveq]. unfold veq. auto.
  - cbn [wstep wrel oveq]. unfold veq, to_fl. auto.
Qed.

Lemma wstates_rel (h : hints) : forall (l : list num) (st st' : wstate (FA h)), wrel st st' -> var_ok h st l ->
  map (wout (FA h)) (scan_states (wstep (FA h)) st l) = map (wout (FA h)) (scan_states (wstep (FA h)) st' (map to_fl l))
  /\ wout (FA h) (fold_left (wstep (FA h)) l st) = wout (FA h) (fold_left (wstep (FA h)) (map to_fl l) st').
Proof.
  induction l as [|i r IH]; intros st st' E Hok.
  - cbn [map scan_states fold_left]. split; [reflexivity|apply wout_rel; exact E].
  - destruct Hok as (H1 & Hr). pose proof (wstep_rel h st st' i E H1) as E'.
    cbn [map scan_states fold_left]. destruct (IH _ _ E' Hr) as (IH1 & IH2).
    rewrite IH1, IH2, (wout_rel h _ _ E'). split; reflexivity.
Qed.

Lemma var_ok_float_mean (h : hints) : forall (l : list num) (f : pfloat) (s : num) (k : Z),
  var_ok h (Some (NF f), s, k) l.
Proof.
  induction l as [|i r IH]; intros f s k; [exact I|]. cbn [var_ok]. split.
  - cbn [step_ok]. destruct i; exact I.
  - rewrite wstep_some. apply IH.
Qed.
Lemma var_side_ok (h : hints) (l : list num) : var_side l -> var_ok h (wseed (FA h)) l.
Proof.
  intro Hs. destruct l as [|i1 [|i2 r]]; [exact I|split; exact I|].
  cbn [var_ok]. split; [exact I|]. change (wstep (FA h) (wseed (FA h)) i1) with (@pair (option num * num) Z (Some i1, NI 0) 1%Z).
  split.
  - cbn [step_ok]. destruct i1 as [a|], i2 as [b|]; cbn [sub_ok]; try exact I. cbn [var_side] in Hs. tauto.
  - rewrite wstep_some. apply var_ok_float_mean.
Qed.

Theorem mixed_variance_run (h : hints) (reduce : bool) (l : list num) : var_side l ->
  variance_run (FA h) reduce l = variance_run (FA h) reduce (map to_fl l).
Proof.
  intro Hs. unfold variance_run, scan_run.
  destruct (wstates_rel h l (wseed (FA h)) (wseed (FA h))) as (H1 & H2).
  { cbn. auto. }
  { apply var_side_ok. exact Hs. }
  destruct reduce; cbn [map]; [f_equal; exact H2|exact H1].
Qed.
Theorem mixed_stddev_run (h : hints) (reduce : bool) (l : list num) : var_side l ->
  stddev_run (FA h) reduce l = stddev_run (FA h) reduce (map to_fl l).
Proof. intro Hs. unfold stddev_run. rewrite (mixed_variance_run h reduce l Hs). reflexivity. Qed.

(* ================= corollaries: the binary64 theorems on mixed lists =================
   fl = map to_f l: the items converted to binary64 (an int z below 2^53 in magnitude converts exactly:
   to_f_NI : small z -> ffin (to_f (NI z)) /\ FR (to_f (NI z)) = IZR z). *)

(* Higham's bound for sum (float_sum_error) *)
Theorem mixed_sum_error (h : hints) (l : list num) :
  Forall ffin (map to_f l) ->
  Forall (fun v => exists s, v = NF s /\ ffin s) (sum_run (FA h) false l) ->
  exists s, sum_run (FA h) true l = [NF s]
            /\ Rabs (FR s - sumR (map FR (map to_f l)))
               <= ((1 + u53) ^ length l - 1) * sumR (map (fun x => Rabs (FR x)) (map to_f l)).
Proof.
  intros Hl Hrun. rewrite mixed_sum_run, to_fl_map in *.
  destruct (float_sum_error h (map to_f l) Hl Hrun) as (s & E & B). exists s. rewrite map_length in B. auto.
Qed.

(* the bound for mean (float_mean_error) *)
Theorem mixed_mean_error (h : hints) (l : list num) :
  l <> [] -> (Z.of_nat (length l) < 2 ^ 53)%Z -> int_prefix_ok 0 l ->
  Forall ffin (map to_f l) -> Forall ffin (scan_states padd zero (map to_f l)) ->
  ffin (fold_left padd (map to_f l) zero / f_of_Z (Z.of_nat (length l)))%float ->
  exists m, mean_run (FA h) true l = [Some (NF m)]
            /\ Rabs (FR m - sumR (map FR (map to_f l)) / INR (length l))
               <= ((1 + u53) ^ S (length l) - 1)
                  * (sumR (map (fun x => Rabs (FR x)) (map to_f l)) / INR (length l)) + eta64.
Proof.
  intros Hne Hn Hok Hl Hs Hq. rewrite (mixed_mean_run h true l Hok), to_fl_map.
  destruct (float_mean_error h (map to_f l)) as (m & E & B); try (rewrite ?map_length; assumption).
  { destruct l; [congruence|discriminate]. }
  exists m. rewrite map_length in B. auto.
Qed.

Lemma oveq_single (x : option num) (y : num) : Forall2 oveq [x] [Some y] -> exists v, x = Some v /\ veq v y.
Proof.
  intro V. inversion V as [|a b ? ? Hab _]; subst. destruct x as [v|]; [|contradiction]. exists v. split; [reflexivity|exact Hab].
Qed.

(* min / max: the emitted value is (in value) one of the items and bounds every item *)
Theorem mixed_max_exact (h : hints) (l : list num) : l <> [] -> Forall small_num l -> Forall ffin (map to_f l) ->
  exists v, max_run (FA h) true l = [Some v] /\ is_fmax (map to_f l) (to_f v).
Proof.
  intros Hne Hs Hl. pose proof (mixed_max_run h true l Hs) as V. rewrite to_fl_map in V.
  destruct (float_max_exact h (map to_f l)) as (m & E & M); [destruct l; [congruence|discriminate]|exact Hl|].
  rewrite E in V. unfold max_run, scan_run in *. destruct (oveq_single _ _ V) as (v & Ev & Hab).
  exists v. split; [f_equal; exact Ev|]. unfold veq in Hab. cbn [to_f] in Hab. rewrite Hab. exact M.
Qed.
Theorem mixed_min_exact (h : hints) (l : list num) : l <> [] -> Forall small_num l -> Forall ffin (map to_f l) ->
  exists v, min_run (FA h) true l = [Some v] /\ is_fmin (map to_f l) (to_f v).
Proof.
  intros Hne Hs Hl. pose proof (mixed_min_run h true l Hs) as V. rewrite to_fl_map in V.
  destruct (float_min_exact h (map to_f l)) as (m & E & M); [destruct l; [congruence|discriminate]|exact Hl|].
  rewrite E in V. unfold min_run, scan_run in *. destruct (oveq_single _ _ V) as (v & Ev & Hab).
  exists v. split; [f_equal; exact Ev|]. unfold veq in Hab. cbn [to_f] in Hab. rewrite Hab. exact M.
Qed.

(* the Welford variance bound at completion (welford_variance_reduce_error) *)
Theorem mixed_variance_reduce_error (h : hints) (l : list num) (lo hi A Rr : R) :
  - A <= lo -> hi <= A -> hi - lo <= Rr -> l <> [] -> var_side l ->
  Forall ffin (map to_f l) -> Forall (fun x => lo <= FR x <= hi) (map to_f l) -> (Z.of_nat (length l) < 2 ^ 53)%Z ->
  Forall state_fin (scan_states (wstep (FA h)) (wseed (FA h)) (map to_fl l)) ->
  exists f, variance_run (FA h) true l = [NF f] /\ ffin f /\ 0 <= FR f /\
    ((2 <= length l)%nat ->
     Rabs (FR f - ssdR (map FR (map to_f l)) / INR (length l - 1))
     <= wFb A Rr (map FR (map to_f l)) (length l) / INR (length l - 1) * (1 + u53)
        + u53 * (ssdR (map FR (map to_f l)) / INR (length l - 1)) + eta64).
Proof.
  intros HloA HhiA HR Hne Hs Hl Hrg Hb Hf. rewrite (mixed_variance_run h true l Hs). rewrite to_fl_map in *.
  destruct (welford_variance_reduce_error h (map to_f l) lo hi A Rr) as (f & E & Ff & Pf & B);
    try (rewrite ?map_length; assumption).
  { destruct l; [congruence|discriminate]. }
  exists f. rewrite map_length in B. auto.
Qed.

(* ... and the stddev bound at completion (welford_stddev_reduce_error) *)
Theorem mixed_stddev_reduce_error (h : hints) (l : list num) (lo hi A Rr : R) :
  - A <= lo -> hi <= A -> hi - lo <= Rr -> l <> [] -> var_side l ->
  Forall ffin (map to_f l) -> Forall (fun x => lo <= FR x <= hi) (map to_f l) -> (Z.of_nat (length l) < 2 ^ 53)%Z ->
  Forall state_fin (scan_states (wstep (FA h)) (wseed (FA h)) (map to_fl l)) ->
  exists g, stddev_run (FA h) true l = [NF g] /\ ffin g /\ 0 <= FR g /\
    (length l = 1%nat -> g = zero) /\
    ((2 <= length l)%nat ->
     Rabs (FR g - rsqrt (varR (map FR (map to_f l)) (length l)))
     <= rsqrt (wVb A Rr (map FR (map to_f l)) (length l)) * (1 + u53)
        + u53 * rsqrt (varR (map FR (map to_f l)) (length l))).
Proof.
  intros HloA HhiA HR Hne Hs Hl Hrg Hb Hf. rewrite (mixed_stddev_run h true l Hs). rewrite to_fl_map in *.
  destruct (welford_stddev_reduce_error h (map to_f l) lo hi A Rr) as (g & E & Fg & Pg & Z1 & B);
    try (rewrite ?map_length; assumption).
  { destruct l; [congruence|discriminate]. }
  exists g. rewrite map_length in Z1, B. auto.
Qed.

(* evaluated: ints and floats mixed, the run equals the run on the converted items *)
Example mixed_variance_example :
  variance_run (FA []) false [NI 3; NI (-5); NF 0.5%float; NI 7]
  = variance_run (FA []) false (map to_fl [NI 3; NI (-5); NF 0.5%float; NI 7]).
Proof. vm_compute. reflexivity. Qed.
Example mixed_mean_example :
  mean_run (FA []) false [NI 3; NI (-3); NI 0; NF 0.5%float; NI 7]
  = mean_run (FA []) false (map to_fl [NI 3; NI (-3); NI 0; NF 0.5%float; NI 7]).
Proof. vm_compute. reflexivity. Qed.
