(* Structural facts about the Zstandard frame model of ZstdFrame.v.
   - every reader of the model is monotone under appending bytes at the end of the input, never
     runs out of fuel, never un-reads a byte (predicate wf, proved compositionally);
   - consequences for zstd_scan (and for the Raw/RLE decoder zstd_unraw): a verdict other than
     "need more" is final (P1, P3), a strict prefix of a complete stream needs more (P2);
   - the Raw-block encoder produces a frame that the model reads back completely (P4). *)
From Coq Require Import List ZArith NArith Bool Lia.
From RxVerif Require Import Compress.ZstdFrame.
Import ListNotations.
Local Open Scope Z_scope.

(* ------------------------------------------------------------------ the predicates *)
Definition ext {A} (x : list Z) (r : res A) : res A :=
  match r with Ok a s => Ok a (s ++ x) | More => More | Fail => Fail | Fuel => Fuel end.

(* with more input behind it, a reader that did not ask for more gives the same verdict and leaves
   the added bytes untouched *)
Definition mono {A} (f : M A) : Prop := forall s x, f s = More \/ f (s ++ x) = ext x (f s).
Definition nofuel {A} (f : M A) : Prop := forall s, f s <> Fuel.
Definition noninc {A} (f : M A) : Prop :=
  forall s a s', f s = Ok a s' -> (length s' <= length s)%nat.
Definition strict {A} (f : M A) : Prop :=
  forall s a s', f s = Ok a s' -> (length s' < length s)%nat.
Definition wf {A} (f : M A) : Prop := mono f /\ nofuel f /\ noninc f.

(* ------------------------------------------------------------------ closure *)
Lemma wf_ret : forall A (a : A), wf (ret a).
Proof.
  intros A a. split; [|split].
  - intros s x. right. reflexivity.
  - intros s. discriminate.
  - intros s a' s' H. inversion H. subst. apply le_n.
Qed.
Lemma wf_fail : forall A, wf (@fail A).
Proof.
  intros A. split; [|split].
  - intros s x. right. reflexivity.
  - intros s. discriminate.
  - intros s a' s' H. discriminate.
Qed.

Lemma mono_bind : forall A B (f : M A) (g : A -> M B),
  mono f -> (forall a, mono (g a)) -> mono (bind f g).
Proof.
  intros A B f g Hf Hg s x. unfold bind.
  destruct (Hf s x) as [H | H].
  - left. rewrite H. reflexivity.
  - rewrite H. destruct (f s) as [a s0 | | |]; simpl.
    + apply Hg.
    + left. reflexivity.
    + right. reflexivity.
    + right. reflexivity.
Qed.
Lemma wf_bind : forall A B (f : M A) (g : A -> M B),
  wf f -> (forall a, wf (g a)) -> wf (bind f g).
Proof.
  intros A B f g [Hm [Hf Hn]] Hg. split; [|split].
  - apply mono_bind; [exact Hm | intro a; apply Hg].
  - intros s. unfold bind. specialize (Hf s). destruct (f s) as [a s0 | | |].
    + apply Hg.
    + discriminate.
    + discriminate.
    + congruence.
  - intros s b s'. unfold bind. destruct (f s) as [a s0 | | |] eqn:E; try discriminate.
    intros H. apply Hn in E. destruct (Hg a) as [_ [_ Hgn]]. apply Hgn in H. lia.
Qed.
Lemma strict_bind_l : forall A B (f : M A) (g : A -> M B),
  strict f -> (forall a, wf (g a)) -> strict (bind f g).
Proof.
  intros A B f g Hs Hg s b s'. unfold bind.
  destruct (f s) as [a s0 | | |] eqn:E; try discriminate.
  intros H. apply Hs in E. destruct (Hg a) as [_ [_ Hgn]]. apply Hgn in H. lia.
Qed.

(* ------------------------------------------------------------------ primitives *)
Lemma wf_getbyte : wf getbyte.
Proof.
  split; [|split].
  - intros [|z r] x; simpl; auto.
  - intros [|z r]; simpl; discriminate.
  - intros [|z r] a s'; simpl; intros H; inversion H; subst. simpl. lia.
Qed.
Lemma strict_getbyte : strict getbyte.
Proof.
  intros [|z r] a s'; simpl; intros H; inversion H; subst. simpl. lia.
Qed.

Lemma take_rev_le0 : forall n acc s, n <= 0 -> take_rev n acc s = Some (acc, s).
Proof.
  intros n acc s H. apply Z.leb_le in H. destruct s as [|z r]; simpl; rewrite H; reflexivity.
Qed.
Lemma take_rev_mono : forall s n acc x,
  take_rev n acc s = None \/
  take_rev n acc (s ++ x)
  = match take_rev n acc s with Some (a, r) => Some (a, r ++ x) | None => None end.
Proof.
  induction s as [|z s IH]; intros n acc x.
  - simpl. destruct (n <=? 0) eqn:E.
    + right. apply Z.leb_le in E. apply take_rev_le0. exact E.
    + left. reflexivity.
  - simpl. destruct (n <=? 0) eqn:E.
    + right. reflexivity.
    + apply IH.
Qed.
Lemma take_rev_len : forall s n acc a r, take_rev n acc s = Some (a, r) ->
  (length r <= length s)%nat /\ (0 < n -> (length r < length s)%nat).
Proof.
  induction s as [|z s IH]; intros n acc a r H; simpl in H.
  - destruct (n <=? 0) eqn:E; [|discriminate]. apply Z.leb_le in E. inversion H; subst.
    split; [apply le_n | intro; lia].
  - destruct (n <=? 0) eqn:E.
    + apply Z.leb_le in E. inversion H; subst. split; [apply le_n | intro; lia].
    + apply IH in H. destruct H as [H1 _]. simpl. split; [lia | intro; lia].
Qed.
Lemma take_rev_spec : forall s n acc a r, 0 <= n -> take_rev n acc s = Some (a, r) ->
  exists c, s = c ++ r /\ a = rev c ++ acc /\ Z.of_nat (length c) = n.
Proof.
  induction s as [|z s IH]; intros n acc a r Hn H; simpl in H.
  - destruct (n <=? 0) eqn:E; [|discriminate]. apply Z.leb_le in E. inversion H; subst.
    exists []. simpl. repeat split. lia.
  - destruct (n <=? 0) eqn:E.
    + apply Z.leb_le in E. inversion H; subst. exists []. simpl. repeat split. lia.
    + apply Z.leb_gt in E. apply IH in H; [|lia]. destruct H as [c [H1 [H2 H3]]].
      exists (z :: c). subst s a. simpl. repeat split.
      * rewrite <- app_assoc. reflexivity.
      * lia.
Qed.
Lemma take_rev_none : forall s n acc, take_rev n acc s = None -> Z.of_nat (length s) < n.
Proof.
  induction s as [|z s IH]; intros n acc H; simpl in H.
  - destruct (n <=? 0) eqn:E; [discriminate|]. apply Z.leb_gt in E. simpl. exact E.
  - destruct (n <=? 0) eqn:E; [discriminate|]. apply IH in H. simpl length. lia.
Qed.
Lemma take_rev_app_gen : forall c n acc r, n = Z.of_nat (length c) ->
  take_rev n acc (c ++ r) = Some (rev c ++ acc, r).
Proof.
  induction c as [|z c IH]; intros n acc r Hn.
  - simpl. apply take_rev_le0. simpl in Hn. lia.
  - simpl length in Hn. simpl.
    replace (n <=? 0) with false by (symmetry; apply Z.leb_gt; lia).
    rewrite (IH (n - 1) (z :: acc) r) by lia. rewrite <- app_assoc. reflexivity.
Qed.
Lemma take_rev_app : forall c acc r,
  take_rev (Z.of_nat (length c)) acc (c ++ r) = Some (rev c ++ acc, r).
Proof. intros c acc r. apply take_rev_app_gen. reflexivity. Qed.

Lemma rev'_eq : forall (A : Type) (l : list A), rev' l = rev l.
Proof. intros A l. unfold rev'. symmetry. apply rev_alt. Qed.

Lemma wf_getbytes : forall n, wf (getbytes n).
Proof.
  intros n. split; [|split].
  - intros s x. unfold getbytes. destruct (take_rev_mono s n [] x) as [H | H].
    + left. rewrite H. reflexivity.
    + right. rewrite H. destruct (take_rev n [] s) as [[a r]|]; reflexivity.
  - intros s. unfold getbytes. destruct (take_rev n [] s) as [[a r]|]; discriminate.
  - intros s a s' H. unfold getbytes in H.
    destruct (take_rev n [] s) as [[a0 r]|] eqn:E; [|discriminate].
    inversion H; subst. apply take_rev_len in E. apply E.
Qed.
Lemma strict_getbytes : forall n, 0 < n -> strict (getbytes n).
Proof.
  intros n Hn s a s' H. unfold getbytes in H.
  destruct (take_rev n [] s) as [[a0 r]|] eqn:E; [|discriminate].
  inversion H; subst. apply take_rev_len in E. apply E. exact Hn.
Qed.
Lemma wf_getle : forall n, wf (getle n).
Proof.
  intros n. unfold getle. apply wf_bind; [apply wf_getbytes | intro l; apply wf_ret].
Qed.
Lemma strict_getle : forall n, 0 < n -> strict (getle n).
Proof.
  intros n Hn. unfold getle. apply strict_bind_l; [apply strict_getbytes; exact Hn|].
  intro l. apply wf_ret.
Qed.
Lemma wf_expect : forall l, wf (expect l).
Proof.
  induction l as [|b l IH]; simpl.
  - apply wf_ret.
  - apply wf_bind; [apply wf_getbyte | intro z].
    destruct (z =? b); [exact IH | apply wf_fail].
Qed.

Lemma len_acc_eq : forall l n, len_acc l n = (length l + n)%nat.
Proof. induction l as [|z l IH]; intros n; simpl; [reflexivity|]. rewrite IH. lia. Qed.
Lemma tlength_eq : forall l, tlength l = length l.
Proof. intros l. unfold tlength. rewrite len_acc_eq. lia. Qed.
Lemma zlen_acc_eq : forall l n, zlen_acc l n = Z.of_nat (length l) + n.
Proof. induction l as [|z l IH]; intros n; simpl zlen_acc; [simpl; lia|]. rewrite IH. simpl length. lia. Qed.
Lemma zlen_eq : forall l, zlen l = Z.of_nat (length l).
Proof. intros l. unfold zlen. rewrite zlen_acc_eq. lia. Qed.

(* ------------------------------------------------------------------ loops *)
Section Loop.
Variables A B : Type.
Variable body : A -> M (A + B).

Lemma loop_mono : (forall a, mono (body a)) -> forall n a, mono (loop body n a).
Proof.
  intros Hb. induction n; intros a; simpl.
  - intros s x. right. reflexivity.
  - apply mono_bind; [apply Hb|]. intros [a' | b].
    + apply IHn.
    + apply wf_ret.
Qed.

(* a verdict other than "out of fuel" does not depend on the fuel *)
Lemma loop_more_fuel : forall n m a s r,
  loop body n a s = r -> r <> Fuel -> (n <= m)%nat -> loop body m a s = r.
Proof.
  induction n; intros m a s r H Hr Hle; simpl in H.
  - congruence.
  - destruct m as [|m]; [lia|]. simpl. unfold bind in *.
    destruct (body a s) as [[a' | b] s0 | | |]; try exact H.
    apply IHn; [exact H | exact Hr | lia].
Qed.

Lemma loop_nofuel : (forall a, nofuel (body a)) -> (forall a, strict (body a)) ->
  forall n a s, (length s < n)%nat -> loop body n a s <> Fuel.
Proof.
  intros Hf Hs. induction n; intros a s Hlt; [lia|]. simpl. unfold bind.
  destruct (body a s) as [[a' | b] s0 | | |] eqn:E; try discriminate.
  - apply IHn. apply Hs in E. lia.
  - exfalso. exact (Hf a s E).
Qed.

Lemma loop_noninc : (forall a, noninc (body a)) -> forall n a, noninc (loop body n a).
Proof.
  intros Hn. induction n; intros a s b s'; simpl.
  - discriminate.
  - unfold bind. destruct (body a s) as [[a' | b'] s0 | | |] eqn:E; try discriminate.
    + intros H. apply Hn in E. apply IHn in H. lia.
    + intros H. inversion H; subst. eapply Hn. exact E.
Qed.

Lemma wf_run_loop : (forall a, wf (body a)) -> (forall a, strict (body a)) ->
  forall a, wf (run_loop body a).
Proof.
  intros Hw Hs a.
  assert (Hnf : forall s, run_loop body a s <> Fuel).
  { intros s. unfold run_loop. rewrite tlength_eq. apply loop_nofuel.
    - intro a0. apply Hw.
    - exact Hs.
    - lia. }
  split; [|split].
  - intros s x. unfold run_loop. rewrite !tlength_eq.
    destruct (loop_mono (fun a0 => proj1 (Hw a0)) (S (length s)) a s x) as [H | H].
    + left. exact H.
    + right. apply loop_more_fuel with (n := S (length s)).
      * exact H.
      * specialize (Hnf s). unfold run_loop in Hnf. rewrite tlength_eq in Hnf.
        destruct (loop body (S (length s)) a s); simpl; congruence.
      * rewrite app_length. lia.
  - exact Hnf.
  - intros s b s'. unfold run_loop. apply loop_noninc. intro a0. apply Hw.
Qed.

(* the verdict of run_loop is the verdict of the loop with any fuel that was enough *)
Lemma run_loop_any_fuel : (forall a, wf (body a)) -> (forall a, strict (body a)) ->
  forall m a s r, loop body m a s = r -> r <> Fuel -> run_loop body a s = r.
Proof.
  intros Hw Hs m a s r H Hr. unfold run_loop. rewrite tlength_eq.
  destruct (Nat.le_ge_cases m (S (length s))) as [Hle | Hge].
  - apply loop_more_fuel with (n := m); assumption.
  - assert (Hnf : loop body (S (length s)) a s <> Fuel).
    { apply loop_nofuel; [intro a0; apply Hw | exact Hs | lia]. }
    rewrite <- H. symmetry.
    apply loop_more_fuel with (n := S (length s)); [reflexivity | exact Hnf | exact Hge].
Qed.
End Loop.

(* ------------------------------------------------------------------ the model is wf *)
Ltac wf_tac :=
  repeat first
    [ assumption
    | apply wf_ret | apply wf_fail | apply wf_getbyte | apply wf_getbytes | apply wf_getle
    | apply wf_expect
    | apply wf_bind; [ | intro ]
    | progress cbv zeta
    | match goal with
      | |- wf (if ?c then _ else _) => destruct c
      | |- wf (match ?x with _ => _ end) => destruct x
      end ].

Lemma wf_frame_header : wf frame_header.
Proof. unfold frame_header. wf_tac. Qed.

Lemma wf_block_body : forall bmax acc, wf (block_body bmax acc).
Proof. intros. unfold block_body. wf_tac. Qed.
Lemma strict_block_body : forall bmax acc, strict (block_body bmax acc).
Proof.
  intros. unfold block_body. apply strict_bind_l; [apply strict_getle; lia | intro v]. wf_tac.
Qed.

Lemma wf_std_blocks : forall h, wf (std_blocks h).
Proof.
  intros h. unfold std_blocks.
  apply wf_bind; [apply wf_run_loop; [apply wf_block_body | apply strict_block_body] | intro racc].
  wf_tac.
Qed.
Lemma wf_std_frame : wf std_frame.
Proof. unfold std_frame. apply wf_bind; [apply wf_frame_header | apply wf_std_blocks]. Qed.
Lemma wf_skippable_frame : forall b0, wf (skippable_frame b0).
Proof. intros. unfold skippable_frame. wf_tac. Qed.

Theorem wf_zstd_frame : wf zstd_frame.
Proof.
  unfold zstd_frame. apply wf_bind; [apply wf_getbyte | intro b0].
  destruct (b0 =? 40).
  - apply wf_bind; [apply wf_expect | intros _; apply wf_std_frame].
  - destruct (b0 / 16 =? 5).
    + apply wf_bind; [apply wf_expect | intros _; apply wf_skippable_frame].
    + apply wf_fail.
Qed.

(* ------------------------------------------------------------------ zstd_scan and prefixes *)
Lemma zstd_frame_app : forall p x,
  zstd_frame p = More \/ zstd_frame (p ++ x) = ext x (zstd_frame p).
Proof. intros p x. exact (proj1 wf_zstd_frame p x). Qed.

Theorem zstd_scan_never_out_of_fuel : forall s, zstd_scan s <> ZOutOfFuel.
Proof.
  intros s. unfold zstd_scan.
  pose proof (proj1 (proj2 wf_zstd_frame) s) as H.
  destruct (zstd_frame s) as [f r | | |]; congruence.
Qed.

(* (P1) a complete frame stays complete; what is appended is left over *)
Theorem zstd_scan_extend_done : forall p r,
  zstd_scan p = ZDone r -> forall x, zstd_scan (p ++ x) = ZDone (r ++ x).
Proof.
  intros p r H x. unfold zstd_scan in *.
  destruct (zstd_frame_app p x) as [Hm | Hm].
  - rewrite Hm in H. discriminate.
  - rewrite Hm. destruct (zstd_frame p) as [f r0 | | |]; try discriminate.
    inversion H; subst. reflexivity.
Qed.

(* (P3) an invalid stream stays invalid *)
Theorem zstd_scan_extend_bad : forall p,
  zstd_scan p = ZBad -> forall x, zstd_scan (p ++ x) = ZBad.
Proof.
  intros p H x. unfold zstd_scan in *.
  destruct (zstd_frame_app p x) as [Hm | Hm].
  - rewrite Hm in H. discriminate.
  - rewrite Hm. destruct (zstd_frame p) as [f r0 | | |]; try discriminate. reflexivity.
Qed.

(* no strict prefix of a stream that is complete with nothing left over is complete *)
Theorem zstd_scan_no_early_done : forall p x,
  zstd_scan (p ++ x) = ZDone [] -> x <> [] -> forall r', zstd_scan p <> ZDone r'.
Proof.
  intros p x H Hx r' Hp.
  rewrite (zstd_scan_extend_done p r' Hp x) in H. inversion H as [H2].
  destruct (app_eq_nil _ _ H2) as [_ Hx0]. exact (Hx Hx0).
Qed.

(* (P2) a truncated complete stream needs more: neither complete, nor invalid, nor out of fuel *)
Theorem zstd_scan_truncated_needmore : forall p x,
  zstd_scan (p ++ x) = ZDone [] -> x <> [] -> zstd_scan p = ZNeedMore.
Proof.
  intros p x H Hx.
  destruct (zstd_scan p) as [r' | | |] eqn:E.
  - exfalso. exact (zstd_scan_no_early_done p x H Hx r' E).
  - reflexivity.
  - rewrite (zstd_scan_extend_bad p E x) in H. discriminate.
  - exfalso. exact (zstd_scan_never_out_of_fuel p E).
Qed.
Corollary zstd_scan_strict_prefix_needmore : forall s, zstd_scan s = ZDone [] ->
  forall n, (n < length s)%nat -> zstd_scan (firstn n s) = ZNeedMore.
Proof.
  intros s H n Hn. apply zstd_scan_truncated_needmore with (x := skipn n s).
  - rewrite firstn_skipn. exact H.
  - intro E. pose proof (skipn_length n s) as L. rewrite E in L. simpl in L. lia.
Qed.

(* the other direction of the three-valued answer: "need more" is the only verdict that more
   input can change, and it can only change once *)
Theorem zstd_scan_needmore_prefix_closed : forall p x,
  zstd_scan (p ++ x) = ZNeedMore -> zstd_scan p = ZNeedMore.
Proof.
  intros p x H.
  destruct (zstd_scan p) as [r' | | |] eqn:E.
  - rewrite (zstd_scan_extend_done p r' E x) in H. discriminate.
  - reflexivity.
  - rewrite (zstd_scan_extend_bad p E x) in H. discriminate.
  - exfalso. exact (zstd_scan_never_out_of_fuel p E).
Qed.

(* ------------------------------------------------------------------ the same for zstd_unraw *)
Theorem zstd_unraw_never_out_of_fuel : forall s, zstd_unraw s <> OutOfFuel.
Proof.
  intros s. unfold zstd_unraw.
  pose proof (proj1 (proj2 wf_zstd_frame) s) as H.
  destruct (zstd_frame s) as [[h bs ck | nb c] r | | |]; try congruence.
  destruct (raw_data bs); discriminate.
Qed.
Theorem zstd_unraw_extend_done : forall p d r,
  zstd_unraw p = Done d r -> forall x, zstd_unraw (p ++ x) = Done d (r ++ x).
Proof.
  intros p d r H x. unfold zstd_unraw in *.
  destruct (zstd_frame_app p x) as [Hm | Hm].
  - rewrite Hm in H. discriminate.
  - rewrite Hm. destruct (zstd_frame p) as [[h bs ck | nb c] r0 | | |]; try discriminate; simpl.
    + destruct (raw_data bs); [|discriminate]. inversion H; subst. reflexivity.
    + inversion H; subst. reflexivity.
Qed.
Theorem zstd_unraw_extend_bad : forall p,
  zstd_unraw p = Bad -> forall x, zstd_unraw (p ++ x) = Bad.
Proof.
  intros p H x. unfold zstd_unraw in *.
  destruct (zstd_frame_app p x) as [Hm | Hm].
  - rewrite Hm in H. discriminate.
  - rewrite Hm. destruct (zstd_frame p) as [[h bs ck | nb c] r0 | | |]; try discriminate; simpl.
    + destruct (raw_data bs); [discriminate | reflexivity].
    + reflexivity.
Qed.
Theorem zstd_unraw_truncated_needmore : forall p x d,
  zstd_unraw (p ++ x) = Done d [] -> x <> [] -> zstd_unraw p = NeedMore.
Proof.
  intros p x d H Hx.
  destruct (zstd_unraw p) as [d' r' | | |] eqn:E.
  - exfalso. rewrite (zstd_unraw_extend_done p d' r' E x) in H. inversion H as [[H1 H2]].
    destruct (app_eq_nil _ _ H2) as [_ Hx0]. exact (Hx Hx0).
  - reflexivity.
  - rewrite (zstd_unraw_extend_bad p E x) in H. discriminate.
  - exfalso. exact (zstd_unraw_never_out_of_fuel p E).
Qed.
(* the decoder and the scanner agree on where the frame ends *)
Theorem zstd_unraw_done_scan : forall s d r, zstd_unraw s = Done d r -> zstd_scan s = ZDone r.
Proof.
  intros s d r H. unfold zstd_unraw, zstd_scan in *.
  destruct (zstd_frame s) as [[h bs ck | nb c] r0 | | |]; try discriminate.
  - destruct (raw_data bs); [|discriminate]. inversion H; subst. reflexivity.
  - inversion H; subst. reflexivity.
Qed.
Theorem zstd_unraw_needmore_scan : forall s, zstd_unraw s = NeedMore <-> zstd_scan s = ZNeedMore.
Proof.
  intros s. unfold zstd_unraw, zstd_scan.
  destruct (zstd_frame s) as [[h bs ck | nb c] r0 | | |]; try (split; discriminate).
  - destruct (raw_data bs); split; discriminate.
  - split; reflexivity.
Qed.

(* ------------------------------------------------------------------ (P4) round trip with Raw blocks *)
Lemma bind_ok : forall A B (f : M A) (g : A -> M B) s a s0,
  f s = Ok a s0 -> bind f g s = g a s0.
Proof. intros A B f g s a s0 H. unfold bind. rewrite H. reflexivity. Qed.

Lemma getbytes_app : forall c r, getbytes (Z.of_nat (length c)) (c ++ r) = Ok c r.
Proof.
  intros c r. unfold getbytes. rewrite take_rev_app. rewrite app_nil_r.
  rewrite rev'_eq. rewrite rev_involutive. reflexivity.
Qed.

Lemma le_val_le24 : forall v, 0 <= v < 16777216 -> le_val (le24 v) = v.
Proof. intros v H. unfold le24, le_val. Z.div_mod_to_equations. lia. Qed.
Lemma getle3_le24 : forall v r, 0 <= v < 16777216 -> getle 3 (le24 v ++ r) = Ok v r.
Proof.
  intros v r H. unfold getle.
  rewrite (bind_ok _ _ (getbytes 3) _ (le24 v ++ r) (le24 v) r).
  - unfold ret. rewrite (le_val_le24 v H). reflexivity.
  - exact (getbytes_app (le24 v) r).
Qed.

Lemma rev_append_rev' : forall (c d : list Z), rev_append (rev' c) d = c ++ d.
Proof. intros c d. rewrite rev'_eq. rewrite rev_append_rev. rewrite rev_involutive. reflexivity. Qed.

(* the fields of the header of a Raw block *)
Lemma raw_header_fields : forall (last : bool) n, 0 <= n ->
  let v := (if last then 1 else 0) + 8 * n in
  Z.odd v = last /\ (v / 2) mod 4 = 0 /\ v / 8 = n.
Proof.
  intros last n Hn v. subst v. split; [|split].
  - destruct last.
    + replace (1 + 8 * n) with (1 + 2 * (4 * n)) by lia. rewrite Z.odd_add_mul_2. reflexivity.
    + replace (0 + 8 * n) with (0 + 2 * (4 * n)) by lia. rewrite Z.odd_add_mul_2. reflexivity.
  - destruct last; Z.div_mod_to_equations; lia.
  - destruct last; Z.div_mod_to_equations; lia.
Qed.

Lemma block_body_raw : forall bmax last c acc r,
  Z.of_nat (length c) <= bmax -> Z.of_nat (length c) < 2097152 ->
  block_body bmax acc (raw_block last c ++ r)
  = Ok (fin last ((BRaw, Z.of_nat (length c), c) :: acc)) r.
Proof.
  intros bmax last c acc r Hb Hl. unfold raw_block. rewrite zlen_eq. rewrite <- app_assoc.
  set (n := Z.of_nat (length c)) in *.
  assert (Hn : 0 <= n) by (subst n; lia).
  destruct (raw_header_fields last n Hn) as [E1 [E2 E3]].
  unfold block_body.
  erewrite bind_ok by (apply getle3_le24; destruct last; lia).
  cbv zeta. rewrite E1, E2, E3.
  change (0 =? 3) with false. change (0 =? 1) with false. change (0 =? 0) with true. cbv iota.
  assert (E4 : (n >? bmax) = false).
  { unfold Z.gtb. destruct (n ?= bmax) eqn:C; try reflexivity.
    apply Z.compare_gt_iff in C. lia. }
  rewrite E4.
  erewrite bind_ok by (subst n; apply getbytes_app).
  reflexivity.
Qed.

Lemma loop_S : forall A B (body : A -> M (A + B)) k a,
  loop body (S k) a
  = bind (body a) (fun r => match r with inl a' => loop body k a' | inr b => ret b end).
Proof. reflexivity. Qed.
Lemma raw_blocks_S : forall f d, raw_blocks (S f) d =
  match take_rev block_limit [] d with
  | Some (racc, z :: rest) => le24 (8 * block_limit) ++ rev_append racc (raw_blocks f (z :: rest))
  | _ => raw_block true d
  end.
Proof. reflexivity. Qed.

Lemma block_limit_val : block_limit = 131072.
Proof. reflexivity. Qed.

(* the blocks written by the encoder are read back, and they carry the data *)
Lemma raw_blocks_loop : forall fuel d acc r, (length d <= fuel)%nat ->
  exists m bs,
    loop (block_body block_limit) m acc (raw_blocks fuel d ++ r) = Ok (rev bs ++ acc) r
    /\ raw_data bs = Some d.
Proof.
  assert (Hfin : forall d acc r, Z.of_nat (length d) <= block_limit ->
    exists m bs,
      loop (block_body block_limit) m acc (raw_block true d ++ r) = Ok (rev bs ++ acc) r
      /\ raw_data bs = Some d).
  { intros d acc r H. exists 1%nat, [(BRaw, Z.of_nat (length d), d)]. split.
    - rewrite loop_S.
      erewrite bind_ok by (apply block_body_raw; [exact H | rewrite block_limit_val in H; lia]).
      reflexivity.
    - simpl. rewrite rev_append_rev'. rewrite app_nil_r. reflexivity. }
  induction fuel as [|f IH]; intros d acc r Hlen.
  - change (raw_blocks 0 d) with (raw_block true d). apply Hfin. rewrite block_limit_val. lia.
  - rewrite raw_blocks_S.
    destruct (take_rev block_limit [] d) as [[racc rest]|] eqn:E.
    + destruct (take_rev_spec d block_limit [] racc rest) as [c [H1 [H2 H3]]];
        [rewrite block_limit_val; lia | exact E |].
      destruct rest as [|z rest].
      * apply Hfin. subst d. rewrite app_nil_r. lia.
      * assert (L2 : (length (z :: rest) <= f)%nat).
        { subst d. rewrite app_length in Hlen. rewrite block_limit_val in H3. lia. }
        destruct (IH (z :: rest) ((BRaw, Z.of_nat (length c), c) :: acc) r L2)
          as [m [bs [Hm Hd]]].
        exists (S m), ((BRaw, Z.of_nat (length c), c) :: bs). split.
        -- assert (Hblk : le24 (8 * block_limit) ++ rev_append racc (raw_blocks f (z :: rest))
                          = raw_block false c ++ raw_blocks f (z :: rest)).
           { subst racc. rewrite app_nil_r. rewrite rev_append_rev. rewrite rev_involutive.
             unfold raw_block. rewrite zlen_eq. rewrite H3. rewrite <- app_assoc. reflexivity. }
           rewrite Hblk. rewrite <- app_assoc. rewrite loop_S.
           erewrite bind_ok
             by (apply block_body_raw; [lia | rewrite block_limit_val in H3; lia]).
           cbv beta iota. unfold fin. rewrite Hm.
           simpl rev. rewrite <- app_assoc. reflexivity.
        -- simpl. rewrite Hd. rewrite rev_append_rev'. subst d. reflexivity.
    + apply Hfin. apply take_rev_none in E. lia.
Qed.

(* the header written by the encoder, as the model reads it *)
Definition raw_hdr : header := mk_header None 131072 false false 0.
Lemma zstd_frame_raw_header : forall rest,
  zstd_frame (zstd_raw_header ++ rest) = std_blocks raw_hdr rest.
Proof. intros [|z rest]; reflexivity. Qed.

Theorem zstd_frame_raw : forall d r,
  exists bs, zstd_frame (zstd_raw d ++ r) = Ok (Std raw_hdr bs []) r /\ raw_data bs = Some d.
Proof.
  intros d r. unfold zstd_raw. rewrite <- app_assoc. rewrite zstd_frame_raw_header.
  rewrite tlength_eq.
  destruct (raw_blocks_loop (length d) d [] r (le_n _)) as [m [bs [Hm Hd]]].
  exists bs. split; [|exact Hd].
  unfold std_blocks.
  change (Z.min (h_window raw_hdr) block_limit) with block_limit.
  erewrite bind_ok.
  2:{ apply run_loop_any_fuel with (m := m).
      - apply wf_block_body.
      - apply strict_block_body.
      - exact Hm.
      - discriminate. }
  cbv zeta. rewrite app_nil_r. rewrite rev'_eq. rewrite rev_involutive. reflexivity.
Qed.

(* (P4) what the encoder writes is one complete frame, with nothing left over *)
Theorem zstd_scan_raw : forall d, zstd_scan (zstd_raw d) = ZDone [].
Proof.
  intros d. destruct (zstd_frame_raw d []) as [bs [H _]]. rewrite app_nil_r in H.
  unfold zstd_scan. rewrite H. reflexivity.
Qed.
Theorem zstd_scan_raw_rest : forall d r, zstd_scan (zstd_raw d ++ r) = ZDone r.
Proof.
  intros d r. destruct (zstd_frame_raw d r) as [bs [H _]].
  unfold zstd_scan. rewrite H. reflexivity.
Qed.
(* and the structural decoder gives the data back; no condition on d: Raw blocks carry their
   bytes verbatim *)
Theorem zstd_unraw_raw : forall d, zstd_unraw (zstd_raw d) = Done d [].
Proof.
  intros d. destruct (zstd_frame_raw d []) as [bs [H Hd]]. rewrite app_nil_r in H.
  unfold zstd_unraw. rewrite H. rewrite Hd. reflexivity.
Qed.

(* the instance of "no early eof" for this encoder *)
Corollary zstd_raw_truncated : forall d p x, p ++ x = zstd_raw d -> x <> [] ->
  zstd_scan p = ZNeedMore.
Proof.
  intros d p x E Hx. apply zstd_scan_truncated_needmore with (x := x); [|exact Hx].
  rewrite E. apply zstd_scan_raw.
Qed.

(* ------------------------------------------------------------------ the encoder writes bytes *)
Definition bytes (d : list Z) : Prop := Forall (fun z => 0 <= z <= 255) d.
Lemma bytes_app : forall a b, bytes a -> bytes b -> bytes (a ++ b).
Proof. intros a b Ha Hb. apply Forall_app. split; assumption. Qed.
Lemma le24_bytes : forall n, bytes (le24 n).
Proof.
  intros n. unfold le24, bytes. repeat constructor;
  match goal with |- _ <= ?a mod 256 => pose proof (Z.mod_pos_bound a 256 eq_refl); lia
                | |- ?a mod 256 <= _ => pose proof (Z.mod_pos_bound a 256 eq_refl); lia end.
Qed.
Lemma raw_block_bytes : forall last c, bytes c -> bytes (raw_block last c).
Proof. intros last c H. unfold raw_block. apply bytes_app; [apply le24_bytes | exact H]. Qed.
Lemma raw_blocks_bytes : forall fuel d, bytes d -> bytes (raw_blocks fuel d).
Proof.
  induction fuel as [|f IH]; intros d H.
  - change (raw_blocks 0 d) with (raw_block true d). apply raw_block_bytes. exact H.
  - rewrite raw_blocks_S.
    destruct (take_rev block_limit [] d) as [[racc rest]|] eqn:E.
    + destruct rest as [|z rest]; [apply raw_block_bytes; exact H|].
      destruct (take_rev_spec d block_limit [] racc (z :: rest)) as [c [H1 [H2 H3]]];
        [rewrite block_limit_val; lia | exact E |].
      subst racc. rewrite app_nil_r. rewrite rev_append_rev. rewrite rev_involutive.
      subst d. unfold bytes in H. apply Forall_app in H. destruct H as [Hc Hr].
      apply bytes_app; [apply le24_bytes|]. apply bytes_app; [exact Hc | apply IH; exact Hr].
    + apply raw_block_bytes. exact H.
Qed.
Theorem zstd_raw_bytes : forall d, bytes d -> bytes (zstd_raw d).
Proof.
  intros d H. unfold zstd_raw. apply bytes_app.
  - unfold zstd_raw_header, bytes. repeat constructor; lia.
  - apply raw_blocks_bytes. exact H.
Qed.

Print Assumptions wf_zstd_frame.
Print Assumptions zstd_scan_never_out_of_fuel.
Print Assumptions zstd_scan_extend_done.
Print Assumptions zstd_scan_extend_bad.
Print Assumptions zstd_scan_no_early_done.
Print Assumptions zstd_scan_truncated_needmore.
Print Assumptions zstd_scan_strict_prefix_needmore.
Print Assumptions zstd_scan_needmore_prefix_closed.
Print Assumptions zstd_unraw_extend_done.
Print Assumptions zstd_unraw_extend_bad.
Print Assumptions zstd_unraw_truncated_needmore.
Print Assumptions zstd_frame_raw.
Print Assumptions zstd_scan_raw.
Print Assumptions zstd_scan_raw_rest.
Print Assumptions zstd_unraw_raw.
Print Assumptions zstd_raw_truncated.
Print Assumptions zstd_raw_bytes.
