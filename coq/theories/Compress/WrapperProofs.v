(* Proofs about the compression wrappers (Wrapper.v).
   Part 1 (no hypotheses): what the wrappers do with ANY codec object.
   Part 2 (Section hypotheses H1-H3 on the abstract codec): round trip under any re-chunking of the
           compressed bytes; truncation => Error, never Completed.
   Part 3: the toy codec satisfies H1-H3 (proved), so Part 2 is instantiated without hypotheses. *)
From Coq Require Import List Arith Bool NArith Lia.
From RxVerif Require Import Compress.Wrapper.
Import ListNotations.

(* ------------------------------------------------------------------------------------------ *)
Section Generic.
Variables I O : Type.
Variable CS : Type.
Variable cinit : CS.
Variable cstep : CS -> I -> option (CS * O).
Variable cflush : CS -> option O.
Notation c_run := (c_run I O CS cstep cflush).
Notation compress := (compress I O CS cinit cstep cflush).

Lemma c_run_dead : forall chunks s, concat (c_run (false, s) chunks) = [].
Proof. induction chunks as [|c cs IH]; intros s; cbn; [reflexivity|]. apply IH. Qed.

(* every output of compressor.compress is forwarded, one per chunk and while that chunk is pushed;
   compressor.flush is called once, at completion, and its output is followed by Completed *)
Lemma c_run_ok : forall chunks s sf outs f,
  codec_run cstep s chunks = Some (sf, outs) -> cflush sf = Some f ->
  c_run (true, s) chunks = map (fun o => [Next o]) outs ++ [[Next f; Completed]].
Proof.
  induction chunks as [|c cs IH]; intros s sf outs f Hr Hf; cbn in *.
  - inversion Hr; subst. cbn. now rewrite Hf.
  - destruct (cstep s c) as [[s' o]|]; [|discriminate].
    destruct (codec_run cstep s' cs) as [[sf' os]|] eqn:E; [|discriminate].
    inversion Hr; subst. cbn. f_equal. eapply IH; eauto.
Qed.

Lemma c_run_flush_raises : forall chunks s sf outs,
  codec_run cstep s chunks = Some (sf, outs) -> cflush sf = None ->
  c_run (true, s) chunks = map (fun o => [Next o]) outs ++ [[Error]].
Proof.
  induction chunks as [|c cs IH]; intros s sf outs Hr Hf; cbn in *.
  - inversion Hr; subst. cbn. now rewrite Hf.
  - destruct (cstep s c) as [[s' o]|]; [|discriminate].
    destruct (codec_run cstep s' cs) as [[sf' os]|] eqn:E; [|discriminate].
    inversion Hr; subst. cbn. f_equal. eapply IH; eauto.
Qed.

Lemma c_run_step_raises : forall chunks s,
  codec_run cstep s chunks = None ->
  exists outs, concat (c_run (true, s) chunks) = map Next outs ++ [Error].
Proof.
  induction chunks as [|c cs IH]; intros s Hr; cbn in *; [discriminate|].
  destruct (cstep s c) as [[s' o]|].
  - destruct (codec_run cstep s' cs) as [[sf' os]|] eqn:E; [discriminate|].
    destruct (IH s' E) as [outs Ho]. exists (o :: outs). cbn. now rewrite Ho.
  - exists []. cbn. now rewrite c_run_dead.
Qed.

Theorem compress_forwards_and_flushes_once : forall chunks sf outs f,
  codec_run cstep cinit chunks = Some (sf, outs) -> cflush sf = Some f ->
  compress chunks = map (fun o => [Next o]) outs ++ [[Next f; Completed]].
Proof. intros. now apply c_run_ok with (sf := sf). Qed.

End Generic.

(* ---- decompress ---- *)
Section GenericD.
Variables I O : Type.
Variable DS : Type.
Variable dinit : DS.
Variable dstep : DS -> I -> option (DS * O).
Variable deof : DS -> bool.
Variable dflush : DS -> option O.
Variable i_empty : I -> bool.
Variable skip_empty : bool.
Notation d_run := (d_run I O DS dstep deof dflush i_empty skip_empty).
Notation d_on_completed := (d_on_completed O DS deof dflush).
Notation decompress := (decompress I O DS dinit dstep deof dflush i_empty skip_empty).
Notation fed := (fed I i_empty skip_empty).
Notation skipped := (skipped I i_empty skip_empty).

Lemma d_run_dead : forall chunks s, concat (d_run (false, s) chunks) = [].
Proof. induction chunks as [|c cs IH]; intros s; cbn; [reflexivity|]. apply IH. Qed.

(* the decoder is called exactly on the chunks that are not skipped, in order; each of its outputs is
   forwarded; what happens at completion is decided by eof of the final decoder state *)
Lemma fed_cons : forall c cs, fed (c :: cs) = if skipped c then fed cs else c :: fed cs.
Proof. intros c cs. unfold Wrapper.fed. cbn [filter]. now destruct (Wrapper.skipped I i_empty skip_empty c). Qed.
Lemma d_run_cons : forall a s c cs, d_run (a, s) (c :: cs) =
  snd (d_on_next I O DS dstep i_empty skip_empty (a, s) c) :: d_run (fst (d_on_next I O DS dstep i_empty skip_empty (a, s) c)) cs.
Proof. intros. cbn [Wrapper.d_run]. now destruct (d_on_next I O DS dstep i_empty skip_empty (a, s) c). Qed.

Lemma d_run_ok : forall chunks s sf outs,
  codec_run dstep s (fed chunks) = Some (sf, outs) ->
  concat (d_run (true, s) chunks) = map Next outs ++ d_on_completed (true, sf).
Proof.
  induction chunks as [|c cs IH]; intros s sf outs Hr.
  - cbn in Hr. inversion Hr; subst. cbn. now rewrite app_nil_r.
  - rewrite fed_cons in Hr. rewrite d_run_cons. unfold d_on_next. destruct (skipped c) eqn:Hs.
    + cbn [fst snd concat app]. now apply IH.
    + cbn [codec_run] in Hr. destruct (dstep s c) as [[s' o]|]; [|discriminate].
      destruct (codec_run dstep s' (fed cs)) as [[sf' os]|] eqn:E; [|discriminate].
      inversion Hr; subst. cbn [fst snd concat app map]. f_equal. now apply IH.
Qed.

Lemma d_run_step_raises : forall chunks s,
  codec_run dstep s (fed chunks) = None ->
  exists outs, concat (d_run (true, s) chunks) = map Next outs ++ [Error].
Proof.
  induction chunks as [|c cs IH]; intros s Hr.
  - discriminate.
  - rewrite fed_cons in Hr. rewrite d_run_cons. unfold d_on_next. destruct (skipped c) eqn:Hs.
    + cbn [fst snd concat app]. now apply IH.
    + cbn [codec_run] in Hr. destruct (dstep s c) as [[s' o]|].
      * destruct (codec_run dstep s' (fed cs)) as [[sf' os]|] eqn:E; [discriminate|].
        destruct (IH s' E) as [outs Ho]. exists (o :: outs). cbn [fst snd concat app map]. now rewrite Ho.
      * exists []. cbn [fst snd concat app map]. now rewrite d_run_dead.
Qed.

Lemma in_map_next_completed : forall outs : list O, ~ In Completed (map Next outs).
Proof. induction outs; cbn; intuition discriminate. Qed.
Lemma in_map_next_error : forall outs : list O, ~ In Error (map Next outs).
Proof. induction outs; cbn; intuition discriminate. Qed.

(* Completed is emitted iff no decoder call raised, the decoder reports eof at completion and its
   flush does not raise *)
Theorem decompress_completed_iff : forall chunks,
  In Completed (concat (decompress chunks)) <->
  exists sf outs f, codec_run dstep dinit (fed chunks) = Some (sf, outs) /\ deof sf = true /\ dflush sf = Some f.
Proof.
  intros chunks. unfold Wrapper.decompress.
  destruct (codec_run dstep dinit (fed chunks)) as [[sf outs]|] eqn:E.
  - rewrite (d_run_ok _ _ _ _ E). cbn. split.
    + intros H. apply in_app_or in H. destruct H as [H|H]; [now apply in_map_next_completed in H|].
      destruct (deof sf) eqn:Ee; [|cbn in H; intuition discriminate].
      destruct (dflush sf) as [f|] eqn:Ef; [|cbn in H; intuition discriminate].
      exists sf, outs, f. auto.
    + intros (sf' & outs' & f & H1 & H2 & H3). inversion H1; subst. rewrite H2, H3.
      apply in_or_app. right. cbn. auto.
  - destruct (d_run_step_raises _ _ E) as [outs Ho]. rewrite Ho. split.
    + intros H. apply in_app_or in H. destruct H as [H|H]; [now apply in_map_next_completed in H|].
      cbn in H. intuition discriminate.
    + intros (sf' & outs' & f & H1 & _). discriminate.
Qed.

(* exactly one of Error / Completed ends the stream *)
Theorem decompress_error_iff_not_completed : forall chunks,
  In Error (concat (decompress chunks)) <-> ~ In Completed (concat (decompress chunks)).
Proof.
  intros chunks. unfold Wrapper.decompress.
  destruct (codec_run dstep dinit (fed chunks)) as [[sf outs]|] eqn:E.
  - rewrite (d_run_ok _ _ _ _ E). cbn.
    destruct (deof sf); [destruct (dflush sf)|]; split; intros H.
    + apply in_app_or in H. destruct H as [H|H]; [now apply in_map_next_error in H|].
      cbn in H. intuition discriminate.
    + exfalso. apply H. apply in_or_app. right. cbn. auto.
    + intros H'. apply in_app_or in H'. destruct H' as [H'|H']; [now apply in_map_next_completed in H'|].
      cbn in H'. intuition discriminate.
    + apply in_or_app. right. cbn. auto.
    + intros H'. apply in_app_or in H'. destruct H' as [H'|H']; [now apply in_map_next_completed in H'|].
      cbn in H'. intuition discriminate.
    + apply in_or_app. right. cbn. auto.
  - destruct (d_run_step_raises _ _ E) as [outs Ho]. rewrite Ho. split; intros H.
    + intros H'. apply in_app_or in H'. destruct H' as [H'|H']; [now apply in_map_next_completed in H'|].
      cbn in H'. intuition discriminate.
    + apply in_or_app. right. cbn. auto.
Qed.
End GenericD.

(* ------------------------------------------------------------------------------------------ *)
Section BytesLevel.
Variable B : Type.
Variable CS : Type.
Variable cinit : CS.
Variable cstep : CS -> list B -> option (CS * list B).
Variable cflush : CS -> option (list B).
Variable DS : Type.
Variable dinit : DS.
Variable dstep : DS -> list B -> option (DS * list B).
Variable deof : DS -> bool.
Variable dflush : DS -> option (list B).
Variable skip_empty : bool.
Notation enc_all := (enc_all B CS cinit cstep cflush).
Notation dec_all := (dec_all B DS dinit dstep deof dflush).
Notation compress := (compress (list B) (list B) CS cinit cstep cflush).
Notation decompress := (decompress (list B) (list B) DS dinit dstep deof dflush b_empty skip_empty).
Notation fed := (fed (list B) b_empty skip_empty).

(* chunk lists the decoder object may see: no empty chunk when the wrapper drops them *)
Definition adm (cs : list (list B)) : Prop := skip_empty = true -> Forall (fun c => c <> []) cs.

(* H1: on (prefixes of) streams produced by the encoder, what the decoder delivers, whether it
       raises and its eof flag depend only on the concatenation of what it was fed *)
Hypothesis H1_chunk_independent : forall chunks w cs1 cs2 suf,
  enc_all chunks = Some w -> concat cs1 ++ suf = w -> concat cs2 = concat cs1 ->
  adm cs1 -> adm cs2 -> dec_all cs1 = dec_all cs2.
(* H2: the encoder never raises and decode (encode whole) = whole, with eof reached *)
Hypothesis H2_decode_encode : forall chunks,
  exists w, enc_all chunks = Some w /\ dec_all (canon w) = Some (concat chunks, true).
(* H3: eof is not reached on any strict prefix of an encoded stream *)
Hypothesis H3_no_early_eof : forall chunks w pre suf,
  enc_all chunks = Some w -> pre ++ suf = w -> suf <> [] ->
  forall o, dec_all (canon pre) <> Some (o, true).

Lemma payload_app : forall a b : list (event (list B)), payload (a ++ b) = payload a ++ payload b.
Proof. induction a as [|[o| |] a IH]; intros b; cbn; rewrite ?IH, ?app_assoc; reflexivity. Qed.
Lemma payload_next : forall outs : list (list B), payload (map Next outs) = concat outs.
Proof. induction outs; cbn; congruence. Qed.

Lemma compress_payload : forall chunks w, enc_all chunks = Some w ->
  payload (concat (compress chunks)) = w /\ In Completed (concat (compress chunks)).
Proof.
  intros chunks w E. unfold Wrapper.enc_all in E.
  destruct (codec_run cstep cinit chunks) as [[sf outs]|] eqn:Er; [|discriminate].
  destruct (cflush sf) as [f|] eqn:Ef; [|discriminate]. inversion E; subst.
  rewrite (compress_forwards_and_flushes_once _ _ _ _ _ _ chunks sf outs f Er Ef).
  rewrite concat_app. cbn. split.
  - rewrite payload_app. cbn. rewrite app_nil_r. f_equal.
    clear. induction outs; cbn; congruence.
  - apply in_or_app. right. cbn. auto.
Qed.

Lemma fed_adm : forall cs, adm (fed cs).
Proof.
  intros cs Hs. unfold Wrapper.fed, skipped. rewrite Hs. cbn. induction cs as [|c cs IH]; cbn; [constructor|].
  destruct c; cbn; [exact IH|]. constructor; [discriminate|exact IH].
Qed.
Lemma fed_concat : forall cs, concat (fed cs) = concat cs.
Proof.
  intros cs. unfold Wrapper.fed, skipped. induction cs as [|c cs IH]; cbn; [reflexivity|].
  destruct c; cbn.
  - destruct skip_empty; cbn; exact IH.
  - rewrite andb_false_r. cbn. now rewrite IH.
Qed.
Lemma canon_adm : forall w, adm (canon w).
Proof. intros [|b w] _; cbn; [constructor|]. constructor; [discriminate|constructor]. Qed.
Lemma canon_concat : forall w : list B, concat (canon w) = w.
Proof. intros [|b w]; cbn; [reflexivity|]. now rewrite app_nil_r. Qed.

(* what decompress emits, in terms of dec_all on the chunks it feeds *)
Lemma decompress_dec_all_eof : forall cs o,
  dec_all (fed cs) = Some (o, true) ->
  payload (concat (decompress cs)) = o /\ In Completed (concat (decompress cs)).
Proof.
  intros cs o E. unfold Wrapper.dec_all in E.
  destruct (codec_run dstep dinit (fed cs)) as [[sf outs]|] eqn:Er; [|discriminate].
  destruct (deof sf) eqn:Ee; [|inversion E].
  destruct (dflush sf) as [f|] eqn:Ef; [|discriminate]. inversion E; subst.
  unfold Wrapper.decompress. rewrite (d_run_ok _ _ _ _ _ _ _ _ _ _ _ _ Er). cbn. rewrite Ee, Ef. split.
  - rewrite payload_app, payload_next. cbn. now rewrite app_nil_r.
  - apply in_or_app. right. cbn. auto.
Qed.

Theorem roundtrip_any_rechunking : forall chunks rechunk,
  concat rechunk = payload (concat (compress chunks)) ->
  In Completed (concat (compress chunks)) /\
  payload (concat (decompress rechunk)) = concat chunks /\
  In Completed (concat (decompress rechunk)) /\ ~ In Error (concat (decompress rechunk)).
Proof.
  intros chunks rechunk Hc.
  destruct (H2_decode_encode chunks) as (w & Ew & Dw).
  destruct (compress_payload chunks w Ew) as [Hp Hcomp]. rewrite Hp in Hc.
  assert (Hd : dec_all (fed rechunk) = Some (concat chunks, true)).
  { rewrite <- Dw. apply (H1_chunk_independent chunks w (fed rechunk) (canon w) []); auto.
    - now rewrite app_nil_r, fed_concat.
    - now rewrite canon_concat, fed_concat.
    - apply fed_adm.
    - apply canon_adm. }
  destruct (decompress_dec_all_eof _ _ Hd) as [P C]. repeat split; auto.
  intros He. apply (proj1 (decompress_error_iff_not_completed _ _ _ dinit dstep deof dflush b_empty skip_empty rechunk)) in He.
  now apply He.
Qed.

Theorem truncation_is_error : forall chunks rechunk suf,
  suf <> [] -> concat rechunk ++ suf = payload (concat (compress chunks)) ->
  In Error (concat (decompress rechunk)) /\ ~ In Completed (concat (decompress rechunk)).
Proof.
  intros chunks rechunk suf Hs Hc.
  destruct (H2_decode_encode chunks) as (w & Ew & _).
  destruct (compress_payload chunks w Ew) as [Hp _]. rewrite Hp in Hc.
  assert (Hn : ~ In Completed (concat (decompress rechunk))).
  { intros HC. apply (proj1 (decompress_completed_iff _ _ _ dinit dstep deof dflush b_empty skip_empty rechunk)) in HC.
    destruct HC as (sf & outs & f & Hr & He & Hf).
    assert (Hd : dec_all (fed rechunk) = Some (concat outs ++ f, true)).
    { unfold Wrapper.dec_all. now rewrite Hr, He, Hf. }
    rewrite (H1_chunk_independent chunks w (fed rechunk) (canon (concat rechunk)) suf) in Hd; auto.
    - revert Hd. apply (H3_no_early_eof chunks w (concat rechunk) suf); auto.
    - now rewrite fed_concat.
    - now rewrite canon_concat, fed_concat.
    - apply fed_adm.
    - apply canon_adm. }
  split; [|exact Hn].
  now apply (proj2 (decompress_error_iff_not_completed _ _ _ dinit dstep deof dflush b_empty skip_empty rechunk)).
Qed.
End BytesLevel.

(* ------------------------------------------------------------------------------------------ *)
(* Part 3: the toy codec satisfies H1-H3 *)
Definition okblk (b : list N) : Prop := 1 <= length b <= BLK.

Lemma toy_cbytes_spec : forall c buf, length buf < BLK ->
  exists bs, snd (toy_cbytes buf c) = concat (map toy_block bs) /\ Forall okblk bs /\
             buf ++ c = concat bs ++ fst (toy_cbytes buf c) /\ length (fst (toy_cbytes buf c)) < BLK.
Proof.
  induction c as [|b c IH]; intros buf Hb; cbn [toy_cbytes].
  - exists []. cbn. rewrite app_nil_r. auto.
  - destruct (length (buf ++ [b]) =? BLK) eqn:E.
    + apply Nat.eqb_eq in E.
      assert (H0 : length (@nil N) < BLK) by (unfold BLK; cbn; lia).
      destruct (IH [] H0) as (bs & H1 & H2 & H3 & H4).
      destruct (toy_cbytes [] c) as [bf out]. cbn [fst snd] in *.
      exists ((buf ++ [b]) :: bs). repeat split.
      * cbn [map concat]. now rewrite H1.
      * constructor; auto. unfold okblk. rewrite E. unfold BLK. lia.
      * cbn [concat]. rewrite <- !app_assoc. cbn [app]. f_equal. f_equal. exact H3.
      * exact H4.
    + apply Nat.eqb_neq in E. rewrite app_length in E. cbn in E.
      assert (H0 : length (buf ++ [b]) < BLK) by (rewrite app_length; cbn; lia).
      destruct (IH (buf ++ [b]) H0) as (bs & H1 & H2 & H3 & H4).
      exists bs. repeat split; auto. rewrite <- H3. now rewrite <- app_assoc.
Qed.

Lemma toy_crun_spec : forall chunks buf, length buf < BLK ->
  exists sf outs bs, codec_run toy_cstep buf chunks = Some (sf, outs) /\
    concat outs = concat (map toy_block bs) /\ Forall okblk bs /\
    buf ++ concat chunks = concat bs ++ sf /\ length sf < BLK.
Proof.
  induction chunks as [|c cs IH]; intros buf Hb.
  - exists buf, [], []. cbn. rewrite app_nil_r. auto.
  - cbn [codec_run]. unfold toy_cstep at 1.
    destruct (toy_cbytes_spec c buf Hb) as (bs1 & A1 & A2 & A3 & A4).
    destruct (toy_cbytes buf c) as [bf out]. cbn [fst snd] in *.
    destruct (IH bf A4) as (sf & outs & bs2 & B1 & B2 & B3 & B4 & B5). rewrite B1.
    exists sf, (out :: outs), (bs1 ++ bs2). repeat split; auto.
    + cbn [concat]. rewrite map_app, concat_app. congruence.
    + apply Forall_app. auto.
    + cbn [concat]. rewrite concat_app, app_assoc, A3, <- !app_assoc. now rewrite B4.
Qed.

Lemma toy_enc_shape : forall chunks, exists bs,
  toy_enc_all chunks = Some (concat (map toy_block bs) ++ [0%N]) /\ Forall okblk bs /\ concat bs = concat chunks.
Proof.
  intros chunks. assert (H0 : length (@nil N) < BLK) by (unfold BLK; cbn; lia).
  destruct (toy_crun_spec chunks [] H0) as (sf & outs & bs & B1 & B2 & B3 & B4 & B5).
  unfold toy_enc_all, enc_all. rewrite B1. cbn [app] in B4. destruct sf as [|x sf].
  - exists bs. cbn. rewrite B2. rewrite app_nil_r in B4. auto.
  - exists (bs ++ [x :: sf]). unfold toy_cflush. repeat split.
    + rewrite map_app, concat_app. cbn [map concat]. rewrite app_nil_r, B2, <- app_assoc. reflexivity.
    + apply Forall_app. split; auto. constructor; [|constructor]. unfold okblk. cbn in *. lia.
    + rewrite concat_app. cbn [concat]. rewrite app_nil_r. congruence.
Qed.

Lemma dbytes_app : forall a b s, toy_dbytes s (a ++ b) =
  match toy_dbytes s a with
  | None => None
  | Some (s', o) => match toy_dbytes s' b with None => None | Some (sf, o') => Some (sf, o ++ o') end
  end.
Proof.
  induction a as [|x a IH]; intros b s; cbn [app toy_dbytes].
  - destruct (toy_dbytes s b) as [[? ?]|]; reflexivity.
  - destruct (toy_dbyte s x) as [[s1 o1]|]; [|reflexivity]. rewrite IH.
    destruct (toy_dbytes s1 a) as [[s2 o2]|]; [|reflexivity].
    destruct (toy_dbytes s2 b) as [[s3 o3]|]; [|reflexivity]. now rewrite app_assoc.
Qed.

Lemma dpay_exact : forall b r, length b = S r -> toy_dbytes (DPay r) b = Some (DLen, b).
Proof.
  induction b as [|x b IH]; intros r H; [discriminate|]. cbn [toy_dbytes toy_dbyte]. destruct r.
  - destruct b; [reflexivity|discriminate].
  - cbn in H. rewrite IH by lia. reflexivity.
Qed.
Lemma dpay_partial : forall p r, length p <= r -> toy_dbytes (DPay r) p = Some (DPay (r - length p), p).
Proof.
  induction p as [|x p IH]; intros r H; cbn [toy_dbytes toy_dbyte length].
  - now rewrite Nat.sub_0_r.
  - cbn in H. destruct r; [lia|]. rewrite IH by lia. reflexivity.
Qed.
Lemma dlen_header : forall b, okblk b ->
  toy_dbyte DLen (N.of_nat (length b)) = Some (DPay (pred (length b)), []).
Proof.
  intros b [H1 H2]. unfold toy_dbyte, BLK in *.
  destruct (N.eqb_spec (N.of_nat (length b)) 0); [lia|].
  destruct (N.leb_spec (N.of_nat (length b)) (N.of_nat 4)); [|lia]. now rewrite Nat2N.id.
Qed.

Lemma dec_block : forall b rest, okblk b ->
  toy_dbytes DLen (toy_block b ++ rest) =
  match toy_dbytes DLen rest with None => None | Some (sf, o) => Some (sf, b ++ o) end.
Proof.
  intros b rest Hb. unfold toy_block. cbn [app toy_dbytes]. rewrite (dlen_header b Hb).
  rewrite dbytes_app, (dpay_exact b (pred (length b))) by (destruct Hb; lia).
  destruct (toy_dbytes DLen rest) as [[sf o]|]; reflexivity.
Qed.

Lemma dec_valid : forall bs, Forall okblk bs ->
  toy_dbytes DLen (concat (map toy_block bs) ++ [0%N]) = Some (DEof, concat bs).
Proof.
  induction bs as [|b bs IH]; intros H.
  - reflexivity.
  - inversion H; subst. cbn [map concat]. rewrite <- app_assoc, dec_block, IH by auto. reflexivity.
Qed.

Lemma dec_prefix : forall bs pre suf, Forall okblk bs ->
  pre ++ suf = concat (map toy_block bs) ++ [0%N] -> suf <> [] ->
  exists s o, toy_dbytes DLen pre = Some (s, o) /\ toy_deof s = false.
Proof.
  induction bs as [|b bs IH]; intros pre suf Hb E Hs.
  - cbn in E. destruct pre as [|x pre].
    + exists DLen, []. auto.
    + cbn in E. inversion E. destruct pre; destruct suf; try discriminate. contradiction.
  - inversion Hb; subst. cbn [map concat] in E. rewrite <- app_assoc in E.
    apply app_eq_app in E. destruct E as [l [[E1 E2]|[E1 E2]]].
    + subst pre. rewrite dec_block by auto.
      destruct (IH l suf H2 (eq_sym E2) Hs) as (s & o & A1 & A2). rewrite A1. exists s, (b ++ o). auto.
    + destruct pre as [|h p].
      * exists DLen, []. auto.
      * unfold toy_block in E1. cbn [app] in E1. inversion E1; subst h. cbn [toy_dbytes]. rewrite <- H3.
        rewrite (dlen_header b H1). destruct l as [|y l].
        -- rewrite app_nil_r in H3. subst p. rewrite (dpay_exact b (pred (length b))) by (destruct H1; lia).
           exists DLen, b. auto.
        -- rewrite dpay_partial by (rewrite H3, app_length; cbn; lia).
           eexists _, _. split; [reflexivity|reflexivity].
Qed.

Lemma dstep_lenient : forall s c, toy_dstep false s c = toy_dbytes s c.
Proof. reflexivity. Qed.
Lemma dstep_strict_noeof : forall s c, toy_deof s = false -> toy_dstep true s c = toy_dbytes s c.
Proof. intros s c H. unfold toy_dstep. now rewrite H. Qed.

(* the lenient decoder object driven over chunks = the byte machine over their concatenation *)
Lemma drun_lenient_concat : forall cs s,
  match toy_dbytes s (concat cs) with
  | None => codec_run (toy_dstep false) s cs = None
  | Some (sf, o) => exists outs, codec_run (toy_dstep false) s cs = Some (sf, outs) /\ concat outs = o
  end.
Proof.
  induction cs as [|c cs IH]; intros s; cbn [concat codec_run].
  - cbn. exists []. auto.
  - change (toy_dstep false s c) with (toy_dbytes s c). rewrite dbytes_app.
    destruct (toy_dbytes s c) as [[s1 o1]|]; [|reflexivity].
    specialize (IH s1). destruct (toy_dbytes s1 (concat cs)) as [[s2 o2]|].
    + destruct IH as (outs & -> & <-). exists (o1 :: outs). auto.
    + now rewrite IH.
Qed.

(* on prefixes of encoder output, cut into non-empty chunks, the strict decoder never sees a call
   after eof, hence behaves as the lenient one *)
Lemma drun_strict_eq : forall cs done s o0 suf bs, Forall okblk bs ->
  toy_dbytes DLen done = Some (s, o0) ->
  done ++ concat cs ++ suf = concat (map toy_block bs) ++ [0%N] ->
  Forall (fun c : list N => c <> []) cs ->
  codec_run (toy_dstep true) s cs = codec_run (toy_dstep false) s cs.
Proof.
  induction cs as [|c cs IH]; intros done s o0 suf bs Hb Hd E Hne; [reflexivity|].
  inversion Hne; subst. cbn [codec_run concat] in *.
  assert (He : toy_deof s = false).
  { destruct (dec_prefix bs done ((c ++ concat cs) ++ suf) Hb E) as (s' & o' & A1 & A2).
    - destruct c; [contradiction|discriminate].
    - congruence. }
  rewrite (dstep_strict_noeof s c He). change (toy_dstep false s c) with (toy_dbytes s c).
  destruct (toy_dbytes s c) as [[s1 o1]|] eqn:Ec; [|reflexivity].
  rewrite (IH (done ++ c) s1 (o0 ++ o1) suf bs); auto.
  - now rewrite dbytes_app, Hd, Ec.
  - rewrite <- !app_assoc in *. exact E.
Qed.

Definition toy_ref (x : list N) : option (list N * bool) :=
  match toy_dbytes DLen x with
  | None => None
  | Some (s, o) => if toy_deof s then Some (o ++ [], true) else Some (o, false)
  end.

Lemma toy_dec_all_lenient : forall cs, toy_dec_all false cs = toy_ref (concat cs).
Proof.
  intros cs. unfold toy_dec_all, dec_all, toy_ref. pose proof (drun_lenient_concat cs DLen) as H.
  destruct (toy_dbytes DLen (concat cs)) as [[sf o]|].
  - destruct H as (outs & -> & <-). reflexivity.
  - now rewrite H.
Qed.

Lemma toy_dec_all_ref : forall skip strict, (strict = true -> skip = true) ->
  forall chunks w cs suf, toy_enc_all chunks = Some w -> concat cs ++ suf = w -> adm N skip cs ->
  toy_dec_all strict cs = toy_ref (concat cs).
Proof.
  intros skip strict Hss chunks w cs suf Ew Ec Ha. rewrite <- toy_dec_all_lenient.
  destruct strict; [|reflexivity].
  destruct (toy_enc_shape chunks) as (bs & E1 & E2 & E3). rewrite Ew in E1. inversion E1; subst w.
  unfold toy_dec_all, dec_all.
  rewrite (drun_strict_eq cs [] DLen [] suf bs E2 eq_refl); auto.
Qed.

Section ToyInstance.
Variables skip strict : bool.
Hypothesis strict_needs_skip : strict = true -> skip = true.

Lemma toy_H1 : forall chunks w cs1 cs2 suf,
  toy_enc_all chunks = Some w -> concat cs1 ++ suf = w -> concat cs2 = concat cs1 ->
  adm N skip cs1 -> adm N skip cs2 -> toy_dec_all strict cs1 = toy_dec_all strict cs2.
Proof.
  intros chunks w cs1 cs2 suf Ew E1 E2 A1 A2.
  rewrite (toy_dec_all_ref skip strict strict_needs_skip chunks w cs1 suf Ew E1 A1).
  rewrite <- E2 in E1.
  rewrite (toy_dec_all_ref skip strict strict_needs_skip chunks w cs2 suf Ew E1 A2). now rewrite E2.
Qed.

Lemma toy_H2 : forall chunks,
  exists w, toy_enc_all chunks = Some w /\ toy_dec_all strict (canon w) = Some (concat chunks, true).
Proof.
  intros chunks. destruct (toy_enc_shape chunks) as (bs & E1 & E2 & E3).
  eexists. split; [exact E1|].
  rewrite (toy_dec_all_ref skip strict strict_needs_skip chunks _ _ [] E1).
  - rewrite canon_concat. unfold toy_ref. rewrite dec_valid by auto. cbn. now rewrite app_nil_r, E3.
  - now rewrite app_nil_r, canon_concat.
  - apply canon_adm.
Qed.

Lemma toy_H3 : forall chunks w pre suf,
  toy_enc_all chunks = Some w -> pre ++ suf = w -> suf <> [] ->
  forall o, toy_dec_all strict (canon pre) <> Some (o, true).
Proof.
  intros chunks w pre suf Ew E Hs o.
  rewrite (toy_dec_all_ref skip strict strict_needs_skip chunks w (canon pre) suf Ew).
  - rewrite canon_concat. unfold toy_ref.
    destruct (toy_enc_shape chunks) as (bs & E1 & E2 & E3).
    assert (Hw : w = concat (map toy_block bs) ++ [0%N]) by congruence. rewrite Hw in E.
    destruct (dec_prefix bs pre suf E2 E Hs) as (s & o' & A1 & A2). rewrite A1, A2. discriminate.
  - now rewrite canon_concat.
  - apply canon_adm.
Qed.

Theorem toy_roundtrip : forall chunks rechunk,
  concat rechunk = payload (concat (toy_compress chunks)) ->
  In Completed (concat (toy_compress chunks)) /\
  payload (concat (toy_decompress skip strict rechunk)) = concat chunks /\
  In Completed (concat (toy_decompress skip strict rechunk)) /\
  ~ In Error (concat (toy_decompress skip strict rechunk)).
Proof.
  exact (roundtrip_any_rechunking N (list N) [] toy_cstep toy_cflush toy_ds DLen (toy_dstep strict)
           toy_deof toy_dflush skip toy_H1 toy_H2).
Qed.

Theorem toy_truncation : forall chunks rechunk suf,
  suf <> [] -> concat rechunk ++ suf = payload (concat (toy_compress chunks)) ->
  In Error (concat (toy_decompress skip strict rechunk)) /\
  ~ In Completed (concat (toy_decompress skip strict rechunk)).
Proof.
  exact (truncation_is_error N (list N) [] toy_cstep toy_cflush toy_ds DLen (toy_dstep strict)
           toy_deof toy_dflush skip toy_H1 toy_H2 toy_H3).
Qed.
End ToyInstance.

(* why the unrepaired zstd wrapper (no skipping) over a strict decoder fails the round trip:
   an empty chunk after the end of the stream *)
Lemma toy_unrepaired_refuted : exists chunks rechunk,
  concat rechunk = payload (concat (toy_compress chunks)) /\
  In Error (concat (toy_decompress false true rechunk)).
Proof. exists [[7%N]], [[1%N; 7%N; 0%N]; []]. split; [reflexivity|]. vm_compute. auto. Qed.
