(* Executable model of the FRAME STRUCTURE of a Zstandard stream (RFC 8878, section 3.1): what
   zstandard.ZstdDecompressor().decompressobj() needs to see before it reports eof.  The model walks
   the frame header and the block headers; it does NOT decode compressed blocks (no FSE / Huffman,
   no literals / sequences sections) and does not compute the XXH64 content checksum.  It decides,
   for a byte string, whether it starts with a COMPLETE frame (ZDone rest), is a valid-so-far but
   INCOMPLETE prefix (ZNeedMore), or is structurally INVALID (ZBad).  No proofs in this file.

   Layout (all multi-byte fields little-endian):
     Magic_Number            28 B5 2F FD                      (0xFD2FB528)
     Frame_Header_Descriptor bits 7-6 Frame_Content_Size_flag, bit 5 Single_Segment_flag,
                             bit 4 Unused, bit 3 Reserved (must be 0), bit 2 Content_Checksum_flag,
                             bits 1-0 Dictionary_ID_flag
     [Window_Descriptor]     1 byte, absent when Single_Segment: Exponent = bits 7-3, Mantissa = 2-0
     [Dictionary_ID]         0 / 1 / 2 / 4 bytes
     [Frame_Content_Size]    0 / 1 / 2 / 4 / 8 bytes (flag 0: 1 byte when Single_Segment, else none;
                             flag 1: 2 bytes, value + 256; flag 2: 4 bytes; flag 3: 8 bytes)
     blocks                  Block_Header (3 bytes): bit 0 Last_Block, bits 1-2 Block_Type
                             (0 Raw, 1 RLE, 2 Compressed, 3 Reserved), bits 3-23 Block_Size;
                             content: Raw -> Block_Size bytes, RLE -> 1 byte, Compressed -> Block_Size
     [Content_Checksum]      4 bytes after the block with Last_Block = 1, when the flag is set
   Skippable frame: magic 5x 2A 4D 18 (0x184D2A50 .. 0x184D2A5F), 4-byte size, that many bytes.

   What is taken from the behaviour of the real library (python-zstandard 0.23.0, libzstd 1.5.6,
   decompressobj of a ZstdDecompressor() built without a dictionary), checked by mirror.py:
   - a skippable frame counts as a complete frame: decompressobj reports eof after it, with no output
     and whatever follows in unused_data;
   - Block_Size (Raw, Compressed) and the regenerated size of an RLE block may not exceed
     Block_Maximum_Size = min(Window_Size, 128 KiB); Window_Size = Frame_Content_Size for a
     Single_Segment frame; the one byte of an RLE block must fit too (it does not when
     Block_Maximum_Size is 0: Single_Segment frame with Frame_Content_Size 0);
   - Window_Size above 2^27 + 1 is refused (default memory limit of the streaming decoder);
   - a Dictionary_ID other than 0 is refused (the decompressor has no dictionary);
   - the Unused bit is ignored; the Reserved bit set is refused;
   - an 8-byte Frame_Content_Size of 2^64 - 1 is read as "unknown";
   - the 2-byte Frame_Content_Size carries an offset of 256;
   - the magic number is checked byte by byte (the library refuses a wrong first byte at once); all
     frame-header checks are made once the whole header has been read (the library does the same);
     an RLE block's size is checked after its byte has been read (the library does the same).
   - Frame_Content_Size: when every block is Raw or RLE the decoded size is known from the headers
     and the model requires it to equal Frame_Content_Size (when present), at the end of the frame.
     With a Compressed block the decoded size is not known to this model and nothing is compared.

   The library has TWO decoding paths behind decompressobj (ZSTD_decompressStream): a single-pass
   shortcut, taken when the header declares a content size that fits the output buffer (128 KiB)
   and the whole frame is present in the call that starts it, and the streaming decoder, taken
   whenever a frame arrives in pieces.  On frames written by the compressor they agree.  On some
   INVALID frames they do not, so the library's verdict depends on how the input was cut:
   - the shortcut does not enforce the window limit nor Block_Maximum_Size; the streaming path does;
   - the streaming path does not compare the decoded size with Frame_Content_Size when the last
     block is empty (Raw or Compressed with Block_Size 0); the shortcut does.
   The model refuses in all these cases (it is the stricter of the two); mirror.py compares with
   the library only where both paths give the same verdict and records the others.  When the
   content size is too big for the shortcut and the last block is empty, neither path compares the
   sizes: the library accepts, the model refuses.
   Timing on invalid frames: the streaming path refuses a frame whose decoded size exceeds a small
   Frame_Content_Size as soon as its output buffer overflows; the model says so at the end of the
   frame (before that: "need more").
   Not seen by the model (library says error, model may say ZDone): anything INSIDE a Compressed
   block, a decoded size that differs from Frame_Content_Size when Compressed blocks are present, and
   a wrong Content_Checksum. *)
From Coq Require Import List ZArith NArith Bool Lia.
Import ListNotations.
Local Open Scope Z_scope.

(* ------------------------------------------------------------------ reader monad over bytes *)
Inductive res (A : Type) : Type :=
| Ok (a : A) (s : list Z)
| More                    (* input exhausted *)
| Fail                    (* invalid stream *)
| Fuel.                   (* a fuelled loop ran out: proved unreachable *)
Arguments Ok {A}. Arguments More {A}. Arguments Fail {A}. Arguments Fuel {A}.
Definition M (A : Type) : Type := list Z -> res A.

Definition ret {A} (a : A) : M A := fun s => Ok a s.
Definition fail {A} : M A := fun _ => Fail.
Definition bind {A B} (f : M A) (g : A -> M B) : M B :=
  fun s => match f s with Ok a s' => g a s' | More => More | Fail => Fail | Fuel => Fuel end.

Definition getbyte : M Z := fun s => match s with [] => More | z :: r => Ok z r end.

(* All recursion over the input is tail recursive and counts in Z: blocks have up to 128 KiB, and
   neither a unary number of that size nor a recursion of that depth is wanted under vm_compute. *)
(* the first n elements of s pushed on acc (so: reversed), and what is left; None: s is too short *)
Fixpoint take_rev (n : Z) (acc s : list Z) : option (list Z * list Z) :=
  match s with
  | [] => if n <=? 0 then Some (acc, []) else None
  | z :: r => if n <=? 0 then Some (acc, s) else take_rev (n - 1) (z :: acc) r
  end.
(* the next n bytes, in order (n <= 0: none) *)
Definition getbytes (n : Z) : M (list Z) := fun s =>
  match take_rev n [] s with
  | Some (a, r) => Ok (rev' a) r
  | None => More
  end.
(* little-endian value of a byte list *)
Fixpoint le_val (l : list Z) : Z :=
  match l with [] => 0 | b :: r => b + 256 * le_val r end.
Definition getle (n : Z) : M Z := bind (getbytes n) (fun l => ret (le_val l)).
(* the next bytes must be exactly these; checked one by one *)
Fixpoint expect (l : list Z) : M unit :=
  match l with
  | [] => ret tt
  | b :: r => bind getbyte (fun z => if z =? b then expect r else fail)
  end.

(* length, tail recursive *)
Fixpoint len_acc (l : list Z) (n : nat) : nat :=
  match l with [] => n | _ :: r => len_acc r (S n) end.
Definition tlength (l : list Z) : nat := len_acc l O.
Fixpoint zlen_acc (l : list Z) (n : Z) : Z :=
  match l with [] => n | _ :: r => zlen_acc r (n + 1) end.
Definition zlen (l : list Z) : Z := zlen_acc l 0.

(* loops: the body says continue (inl) or stop (inr) *)
Fixpoint loop {A B} (body : A -> M (A + B)) (n : nat) (a : A) : M B :=
  match n with
  | O => fun _ => Fuel
  | S k => bind (body a) (fun r => match r with inl a' => loop body k a' | inr b => ret b end)
  end.
(* every body used below reads at least one byte per turn, so one more than the number of unread
   bytes is enough fuel *)
Definition run_loop {A B} (body : A -> M (A + B)) (a : A) : M B :=
  fun s => loop body (S (tlength s)) a s.

(* ------------------------------------------------------------------ frame header *)
Record header := mk_header {
  h_fcs : option Z;        (* Frame_Content_Size, None = not given *)
  h_window : Z;            (* Window_Size *)
  h_single : bool;         (* Single_Segment_flag *)
  h_checksum : bool;       (* Content_Checksum_flag *)
  h_desc : Z               (* the descriptor byte, for the record *)
}.

Definition window_limit : Z := 134217729.          (* 2^27 + 1 *)
Definition block_limit : Z := 131072.              (* 128 KiB *)
Definition fcs_unknown : Z := 18446744073709551615. (* 2^64 - 1 *)

Definition did_size (flag : Z) : Z :=
  if flag =? 0 then 0 else if flag =? 1 then 1 else if flag =? 2 then 2 else 4.
Definition fcs_size (flag : Z) (single : bool) : Z :=
  if flag =? 0 then (if single then 1 else 0)
  else if flag =? 1 then 2 else if flag =? 2 then 4 else 8.
(* windowLog = 10 + Exponent; base = 2^windowLog; Window_Size = base + (base / 8) * Mantissa *)
Definition window_of (w : Z) : Z :=
  let base := 2 ^ (10 + (w / 8) mod 32) in base + (base / 8) * (w mod 8).

Definition frame_header : M header :=
  bind getbyte (fun fhd =>
  let fcs_flag := (fhd / 64) mod 4 in
  let single := Z.testbit fhd 5 in
  let reserved := Z.testbit fhd 3 in
  let cks := Z.testbit fhd 2 in
  let did_flag := fhd mod 4 in
  bind (if single then ret None else bind getbyte (fun w => ret (Some w))) (fun wd =>
  bind (getle (did_size did_flag)) (fun did =>
  bind (getle (fcs_size fcs_flag single)) (fun raw =>
  let value := if fcs_flag =? 1 then raw + 256 else raw in
  let fcs := if (fcs_flag =? 0) && negb single then None
             else if value =? fcs_unknown then None else Some value in
  let window := match wd with Some w => window_of w | None => value end in
  if reserved then fail
  else if window >? window_limit then fail
  else if negb (did =? 0) then fail
  else ret (mk_header fcs window single cks fhd))))).

(* ------------------------------------------------------------------ blocks *)
Inductive btype := BRaw | BRle | BComp.
(* type, Block_Size, the content bytes that follow the header *)
Definition block : Type := (btype * Z * list Z)%type.

Definition fin (last : bool) (acc : list block) : list block + list block :=
  if last then inr acc else inl acc.

(* acc: blocks read so far, reversed *)
Definition block_body (bmax : Z) (acc : list block) : M (list block + list block) :=
  bind (getle 3) (fun v =>
  let last := Z.odd v in
  let ty := (v / 2) mod 4 in
  let size := v / 8 in
  if ty =? 3 then fail
  else if ty =? 1 then
    (* the one byte that follows must fit (it does not only when Block_Maximum_Size is 0), and
       so must the run it stands for *)
    if 1 >? bmax then fail else
    bind getbyte (fun b =>
    if size >? bmax then fail else ret (fin last ((BRle, size, [b]) :: acc)))
  else if size >? bmax then fail
  else bind (getbytes size) (fun c =>
       ret (fin last ((if ty =? 0 then BRaw else BComp, size, c) :: acc)))).

(* decoded size when it can be read off the headers: no Compressed block *)
Fixpoint regen_size (bs : list block) : option Z :=
  match bs with
  | [] => Some 0
  | (BComp, _, _) :: _ => None
  | (_, n, _) :: r => match regen_size r with Some m => Some (n + m) | None => None end
  end.
Definition fcs_ok (fcs : option Z) (bs : list block) : bool :=
  match fcs, regen_size bs with
  | Some n, Some m => n =? m
  | _, _ => true
  end.

Inductive frame :=
| Std (h : header) (blocks : list block) (checksum : list Z)
| Skippable (nibble : Z) (content : list Z).

(* the blocks and the optional checksum of a frame whose header is h *)
Definition std_blocks (h : header) : M frame :=
  bind (run_loop (block_body (Z.min (h_window h) block_limit)) []) (fun racc =>
  let bs := rev' racc in
  bind (if h_checksum h then getbytes 4 else ret []) (fun ck =>
  if fcs_ok (h_fcs h) bs then ret (Std h bs ck) else fail)).
Definition std_frame : M frame := bind frame_header std_blocks.

Definition skippable_frame (b0 : Z) : M frame :=
  bind (getle 4) (fun n =>
  bind (getbytes n) (fun c => ret (Skippable (b0 mod 16) c))).

Definition zstd_frame : M frame :=
  bind getbyte (fun b0 =>
  if b0 =? 40 then bind (expect [181; 47; 253]) (fun _ => std_frame)
  else if b0 / 16 =? 5 then bind (expect [42; 77; 24]) (fun _ => skippable_frame b0)
  else fail).

Inductive zresult :=
| ZDone (rest : list Z)   (* a complete frame was read; rest = the bytes after it *)
| ZNeedMore
| ZBad
| ZOutOfFuel.

Definition zstd_scan (input : list Z) : zresult :=
  match zstd_frame input with
  | Ok _ rest => ZDone rest
  | More => ZNeedMore
  | Fail => ZBad
  | Fuel => ZOutOfFuel
  end.

(* ------------------------------------------------------------------ what was walked (for tests) *)
Definition btype_code (t : btype) : Z := match t with BRaw => 0 | BRle => 1 | BComp => 2 end.
(* block types of the first frame, in order; [] for a skippable frame or when no frame was read *)
Definition zstd_block_types (input : list Z) : list Z :=
  match zstd_frame input with
  | Ok (Std _ bs _) _ => map (fun b => btype_code (fst (fst b))) bs
  | _ => []
  end.
(* the descriptor byte of the first frame, -1 for a skippable frame, -2 when no frame was read *)
Definition zstd_descriptor (input : list Z) : Z :=
  match zstd_frame input with
  | Ok (Std h _ _) _ => h_desc h
  | Ok (Skippable _ _) _ => -1
  | _ => -2
  end.

(* ------------------------------------------------------------------ structural decoder: Raw / RLE only *)
(* n copies of v in front of acc *)
Definition push_const (n : Z) (v : Z) (acc : list Z) : list Z :=
  Z.iter n (fun l => v :: l) acc.
Fixpoint raw_data (bs : list block) : option (list Z) :=
  match bs with
  | [] => Some []
  | (BComp, _, _) :: _ => None
  | (BRaw, _, c) :: r => match raw_data r with
                          | Some d => Some (rev_append (rev' c) d)
                          | None => None
                          end
  | (BRle, n, c) :: r => match raw_data r with
                         | Some d => Some (push_const n (hd 0 c) d)
                         | None => None
                         end
  end.

Inductive result :=
| Done (data : list Z) (rest : list Z)
| NeedMore
| Bad
| OutOfFuel.

(* the data of a frame made of Raw and RLE blocks; a frame with a Compressed block is refused (Bad)
   once it has been read completely; a skippable frame carries no data *)
Definition zstd_unraw (input : list Z) : result :=
  match zstd_frame input with
  | Ok (Std _ bs _) rest => match raw_data bs with Some d => Done d rest | None => Bad end
  | Ok (Skippable _ _) rest => Done [] rest
  | More => NeedMore
  | Fail => Bad
  | Fuel => OutOfFuel
  end.

(* ------------------------------------------------------------------ encoder: Raw blocks only *)
Definition le24 (v : Z) : list Z := [v mod 256; (v / 256) mod 256; (v / 65536) mod 256].
Definition raw_block (last : bool) (c : list Z) : list Z :=
  le24 ((if last then 1 else 0) + 8 * zlen c) ++ c.
(* full blocks of 128 KiB while more than 128 KiB are left, then one last block (possibly empty) *)
Fixpoint raw_blocks (fuel : nat) (d : list Z) : list Z :=
  match fuel with
  | O => raw_block true d
  | S f => match take_rev block_limit [] d with
           | Some (racc, z :: rest) =>
               le24 (8 * block_limit) ++ rev_append racc (raw_blocks f (z :: rest))
           | _ => raw_block true d
           end
  end.
(* magic, descriptor 0 (no content size, no checksum, no dictionary, not single-segment),
   Window_Descriptor 0x38: Exponent 7, Mantissa 0, Window_Size = 2^17 = 128 KiB *)
Definition zstd_raw_header : list Z := [40; 181; 47; 253; 0; 56].
Definition zstd_raw (d : list Z) : list Z := zstd_raw_header ++ raw_blocks (tlength d) d.

(* ------------------------------------------------------------------ helpers for tests *)
Fixpoint list_eqb (a b : list Z) : bool :=
  match a, b with
  | [], [] => true
  | x :: a', y :: b' => (x =? y) && list_eqb a' b'
  | _, _ => false
  end.
Definition zresult_eqb (a b : zresult) : bool :=
  match a, b with
  | ZDone r, ZDone r' => list_eqb r r'
  | ZNeedMore, ZNeedMore => true
  | ZBad, ZBad => true
  | ZOutOfFuel, ZOutOfFuel => true
  | _, _ => false
  end.
Definition result_eqb (a b : result) : bool :=
  match a, b with
  | Done d r, Done d' r' => list_eqb d d' && list_eqb r r'
  | NeedMore, NeedMore => true
  | Bad, Bad => true
  | OutOfFuel, OutOfFuel => true
  | _, _ => false
  end.
