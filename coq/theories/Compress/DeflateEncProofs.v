(* The model's decoder (Inflate.v) inverts the fixed-Huffman encoders of DeflateEnc.v:
     gunzip (gzip_fixed d) = Done d []        literals, end of block (RFC 1951 3.2.6 codes)
     gunzip (gzip_fixed_rle d) = Done d []    plus length symbols with their extra bits, the
                                              distance code, and the copy from the output window
   The reader state is made explicit by the relation R: "the unread input is the bit list l, then
   zero bits up to the byte boundary, then the bytes tr". *)
From Coq Require Import List ZArith NArith Bool Lia.
From RxVerif Require Import Compress.Inflate Compress.InflateProofs Compress.DeflateEnc.
Import ListNotations.
Local Open Scope Z_scope.

(* ------------------------------------------------------------------ the bit reader on packed bits *)
Lemma getbit_byte8 : forall b0 b1 b2 b3 b4 b5 b6 b7 r,
  getbit ([], byte8 b0 b1 b2 b3 b4 b5 b6 b7 :: r) = Ok b0 ([b1; b2; b3; b4; b5; b6; b7], r).
Proof.
  intros. destruct b0, b1, b2, b3, b4, b5, b6, b7; reflexivity.
Qed.

Definition R (tr : list Z) (s : state) (l : list bool) : Prop :=
  exists cur bs, s = (cur, pack bs ++ tr) /\
                 (cur ++ bs = l \/ (bs = [] /\ exists pad, cur = l ++ pad)).

Lemma R_init : forall tr l, R tr ([], pack l ++ tr) l.
Proof. intros tr l. exists [], l. split; [reflexivity | left; reflexivity]. Qed.

Lemma R_nil : forall tr s, R tr s [] -> snd s = tr.
Proof.
  intros tr s [cur [bs [Hs [H | [H _]]]]]; subst s; simpl.
  - apply app_eq_nil in H. destruct H as [_ H]. subst bs. reflexivity.
  - subst bs. reflexivity.
Qed.

Lemma getbit_R : forall tr s b l, R tr s (b :: l) -> exists s', getbit s = Ok b s' /\ R tr s' l.
Proof.
  intros tr s b l [cur [bs [Hs [H | [Hbs [pad Hc]]]]]]; subst s.
  - destruct cur as [|c cur'].
    + simpl in H. subst bs.
      destruct l as [|b1 [|b2 [|b3 [|b4 [|b5 [|b6 [|b7 r]]]]]]];
        cbn [pack nth app]; (eexists; split; [apply getbit_byte8|]).
      * exists [false; false; false; false; false; false; false], []. split; [reflexivity|].
        right. split; [reflexivity | eexists; reflexivity].
      * exists [b1; false; false; false; false; false; false], []. split; [reflexivity|].
        right. split; [reflexivity | exists [false; false; false; false; false; false]; reflexivity].
      * exists [b1; b2; false; false; false; false; false], []. split; [reflexivity|].
        right. split; [reflexivity | exists [false; false; false; false; false]; reflexivity].
      * exists [b1; b2; b3; false; false; false; false], []. split; [reflexivity|].
        right. split; [reflexivity | exists [false; false; false; false]; reflexivity].
      * exists [b1; b2; b3; b4; false; false; false], []. split; [reflexivity|].
        right. split; [reflexivity | exists [false; false; false]; reflexivity].
      * exists [b1; b2; b3; b4; b5; false; false], []. split; [reflexivity|].
        right. split; [reflexivity | exists [false; false]; reflexivity].
      * exists [b1; b2; b3; b4; b5; b6; false], []. split; [reflexivity|].
        right. split; [reflexivity | exists [false]; reflexivity].
      * exists [b1; b2; b3; b4; b5; b6; b7], r. split; [reflexivity | left; reflexivity].
    + simpl in H. inversion H; subst. exists (cur', pack bs ++ tr). split; [reflexivity|].
      exists cur', bs. split; [reflexivity | left; reflexivity].
  - subst bs. subst cur. exists (l ++ pad, pack [] ++ tr). split; [reflexivity|].
    exists (l ++ pad), []. split; [reflexivity|]. right. split; [reflexivity | exists pad; reflexivity].
Qed.

Lemma odd_half : forall v, Z.b2z (Z.odd v) + 2 * (v / 2) = v.
Proof.
  intros v. pose proof (Zmod_odd v) as H. pose proof (Z.div_mod v 2) as D.
  destruct (Z.odd v); simpl Z.b2z; lia.
Qed.

(* extra bits: least significant first *)
Lemma getbits_R : forall n v tr s l, 0 <= v < 2 ^ Z.of_nat n -> R tr s (bits_lsb n v ++ l) ->
  exists s', getbits n s = Ok v s' /\ R tr s' l.
Proof.
  induction n as [|k IH]; intros v tr s l Hv HR.
  - simpl in *. exists s. split; [|exact HR]. unfold ret. f_equal. change (2 ^ 0) with 1 in Hv. lia.
  - change (bits_lsb (S k) v ++ l) with (Z.odd v :: (bits_lsb k (v / 2) ++ l)) in HR.
    destruct (getbit_R _ _ _ _ HR) as [s1 [H1 R1]].
    assert (Hv2 : 0 <= v / 2 < 2 ^ Z.of_nat k).
    { rewrite Nat2Z.inj_succ, Z.pow_succ_r in Hv by lia. split.
      - apply Z.div_pos; lia.
      - apply Z.div_lt_upper_bound; lia. }
    destruct (IH _ _ _ _ Hv2 R1) as [s2 [H2 R2]].
    exists s2. split; [|exact R2].
    change (getbits (S k)) with
      (bind getbit (fun b => bind (getbits k) (fun v0 => ret (Z.b2z b + 2 * v0)))).
    rewrite (bind_ok _ _ _ _ _ _ _ H1). rewrite (bind_ok _ _ _ _ _ _ _ H2).
    unfold ret. rewrite odd_half. reflexivity.
Qed.

(* ------------------------------------------------------------------ Huffman decoding along a path *)
Fixpoint walk (t : tree) (p : list bool) : option Z :=
  match p, t with
  | [], Leaf s => Some s
  | b :: p', Node l r => walk (if b then r else l) p'
  | _, _ => None
  end.
Definition walk_sym (t : tree) (p : list bool) : option Z :=
  match p with [] => None | _ => walk t p end.

Lemma decode_R : forall p t sym tr s l, walk t p = Some sym -> R tr s (p ++ l) ->
  exists s', decode t s = Ok sym s' /\ R tr s' l.
Proof.
  induction p as [|b p IH]; intros t sym tr s l Hw HR.
  - destruct t; simpl in Hw; try discriminate. inversion Hw; subst.
    exists s. split; [reflexivity | exact HR].
  - destruct t as [| |l0 r0]; simpl in Hw; try discriminate.
    change ((b :: p) ++ l) with (b :: (p ++ l)) in HR.
    destruct (getbit_R _ _ _ _ HR) as [s1 [H1 R1]].
    destruct (IH _ _ _ _ _ Hw R1) as [s2 [H2 R2]].
    exists s2. split; [|exact R2].
    change (decode (Node l0 r0)) with (bind getbit (fun b0 => if b0 then decode r0 else decode l0)).
    rewrite (bind_ok _ _ _ _ _ _ _ H1). destruct b; exact H2.
Qed.
Lemma decode_sym_R : forall p t sym tr s l, walk_sym t p = Some sym -> R tr s (p ++ l) ->
  exists s', decode_sym t s = Ok sym s' /\ R tr s' l.
Proof.
  intros p t sym tr s l Hw HR. destruct p as [|b p]; [discriminate|].
  unfold walk_sym in Hw. destruct t as [| |l0 r0]; simpl in Hw; try discriminate.
  change (decode_sym (Node l0 r0)) with (decode (Node l0 r0)).
  apply decode_R with (p := b :: p); [exact Hw | exact HR].
Qed.

(* ------------------------------------------------------------------ one symbol of a block *)
Section Sym.
Variables lt dt : tree.

Lemma sym_lit : forall code b out tr s l,
  walk_sym lt code = Some b -> (b <? 256) = true -> R tr s (code ++ l) ->
  exists s', sym_body lt dt out s = Ok (inl (b :: out)) s' /\ R tr s' l.
Proof.
  intros code b out tr s l Hw Hb HR.
  destruct (decode_sym_R _ _ _ _ _ _ Hw HR) as [s1 [H1 R1]].
  exists s1. split; [|exact R1].
  unfold sym_body. rewrite (bind_ok _ _ _ _ _ _ _ H1). rewrite Hb. reflexivity.
Qed.

Lemma sym_eob : forall code out tr s l,
  walk_sym lt code = Some 256 -> R tr s (code ++ l) ->
  exists s', sym_body lt dt out s = Ok (inr out) s' /\ R tr s' l.
Proof.
  intros code out tr s l Hw HR.
  destruct (decode_sym_R _ _ _ _ _ _ Hw HR) as [s1 [H1 R1]].
  exists s1. split; [|exact R1].
  unfold sym_body. rewrite (bind_ok _ _ _ _ _ _ _ H1). reflexivity.
Qed.

Lemma repeat_snoc : forall (x : Z) k, repeat x k ++ [x] = x :: repeat x k.
Proof. induction k; simpl; [reflexivity | rewrite IHk; reflexivity]. Qed.
Lemma copy_slow_0 : forall k x o, copy_slow 0 k (x :: o) = Some (repeat x k ++ x :: o).
Proof.
  induction k as [|k IH]; intros x o; simpl.
  - reflexivity.
  - rewrite IH. f_equal.
    change (x :: x :: o) with ([x] ++ x :: o). rewrite app_assoc, repeat_snoc. reflexivity.
Qed.
Lemma copy_run : forall len x o, 3 <= len ->
  copy (1 + 0) len (x :: o) = Some (repeat x (Z.to_nat len) ++ x :: o).
Proof.
  intros len x o H. unfold copy. change (1 + 0 <=? 0) with false. cbv iota.
  replace (len <=? 1 + 0) with false by (symmetry; apply Z.leb_gt; lia).
  change (Z.to_nat (1 + 0) - 1)%nat with 0%nat. apply copy_slow_0.
Qed.

(* a length symbol, its extra bits, the distance code of distance 1 *)
Lemma sym_run : forall lcode dcode sym base extra len x o tr s l,
  walk_sym lt lcode = Some sym -> (sym <? 256) = false -> (sym =? 256) = false ->
  nth_error len_table (Z.to_nat (sym - 257)) = Some (base, extra) ->
  0 <= extra -> 0 <= len - base < 2 ^ extra -> 3 <= len ->
  walk_sym dt dcode = Some 0 ->
  R tr s (lcode ++ bits_lsb (Z.to_nat extra) (len - base) ++ dcode ++ l) ->
  exists s', sym_body lt dt (x :: o) s = Ok (inl (repeat x (Z.to_nat len) ++ x :: o)) s' /\ R tr s' l.
Proof.
  intros lcode dcode sym base extra len x o tr s l Hw Hs1 Hs2 Hn He Hr Hl Hd HR.
  destruct (decode_sym_R _ _ _ _ _ _ Hw HR) as [s1 [H1 R1]].
  assert (Hr' : 0 <= len - base < 2 ^ Z.of_nat (Z.to_nat extra)) by (rewrite Z2Nat.id; assumption).
  destruct (getbits_R _ _ _ _ _ Hr' R1) as [s2 [H2 R2]].
  destruct (decode_sym_R _ _ _ _ _ _ Hd R2) as [s3 [H3 R3]].
  exists s3. split; [|exact R3].
  unfold sym_body. rewrite (bind_ok _ _ _ _ _ _ _ H1). rewrite Hs1, Hs2, Hn.
  rewrite (bind_ok _ _ _ _ _ _ _ H2). rewrite (bind_ok _ _ _ _ _ _ _ H3).
  change (nth_error dist_table (Z.to_nat 0)) with (Some (1, 0)). cbv iota.
  change (getbits (Z.to_nat 0)) with (@ret Z 0).
  unfold bind at 1. unfold ret at 1.
  replace (base + (len - base)) with len by lia.
  rewrite (copy_run len x o Hl). reflexivity.
Qed.
End Sym.

(* ------------------------------------------------------------------ the fixed codes: finite checks *)
Definition opt_eqb (o : option Z) (v : Z) : bool :=
  match o with Some s => s =? v | None => false end.
Lemma opt_eqb_eq : forall o v, opt_eqb o v = true -> o = Some v.
Proof.
  intros [s|] v H; simpl in H; [|discriminate]. apply Z.eqb_eq in H. subst. reflexivity.
Qed.

Definition lit_ok (b : Z) : bool := opt_eqb (walk_sym fixed_lt (lit_code b)) b.
Lemma all_lit_ok : forallb lit_ok (map Z.of_nat (seq 0 256)) = true.
Proof. vm_compute. reflexivity. Qed.
Lemma lit_walk : forall b, 0 <= b <= 255 -> walk_sym fixed_lt (lit_code b) = Some b.
Proof.
  intros b H. apply opt_eqb_eq.
  pose proof all_lit_ok as A. rewrite forallb_forall in A. apply A.
  rewrite <- (Z2Nat.id b) by lia. apply in_map. apply in_seq. lia.
Qed.
Lemma eob_walk : walk_sym fixed_lt eob_code = Some 256.
Proof. vm_compute. reflexivity. Qed.
Lemma dist1_walk : walk_sym fixed_dt dist1_code = Some 0.
Proof. vm_compute. reflexivity. Qed.

Definition run_ok (len : Z) : bool :=
  let '(i, base, extra) := find_len len_table 0 len (0, 3, 0) in
  opt_eqb (walk_sym fixed_lt (sym_code (257 + i))) (257 + i)
  && negb (257 + i <? 256) && negb (257 + i =? 256)
  && match nth_error len_table (Z.to_nat (257 + i - 257)) with
     | Some (b', e') => (b' =? base) && (e' =? extra)
     | None => false
     end
  && (0 <=? extra) && (0 <=? len - base) && (len - base <? 2 ^ extra).
Lemma all_run_ok : forallb run_ok (map (fun n => 3 + Z.of_nat n) (seq 0 256)) = true.
Proof. vm_compute. reflexivity. Qed.
Lemma run_ok_len : forall len, 3 <= len <= 258 -> run_ok len = true.
Proof.
  intros len H. pose proof all_run_ok as A. rewrite forallb_forall in A. apply A.
  replace len with (3 + Z.of_nat (Z.to_nat (len - 3))) by (rewrite Z2Nat.id; lia).
  apply (in_map (fun n => 3 + Z.of_nat n)). apply in_seq. lia.
Qed.

(* ------------------------------------------------------------------ tokens *)
Definition apply_tok (out : list Z) (t : token) : list Z :=
  match t with
  | Lit b => b :: out
  | Run len => match out with x :: _ => repeat x (Z.to_nat len) ++ out | [] => out end
  end.
Definition tok_ok (out : list Z) (t : token) : Prop :=
  match t with
  | Lit b => 0 <= b <= 255
  | Run len => 3 <= len <= 258 /\ out <> []
  end.
Fixpoint toks_ok (out : list Z) (ts : list token) : Prop :=
  match ts with
  | [] => True
  | t :: r => tok_ok out t /\ toks_ok (apply_tok out t) r
  end.

Lemma tok_step : forall t out tr s l, tok_ok out t -> R tr s (tok_code t ++ l) ->
  exists s', sym_body fixed_lt fixed_dt out s = Ok (inl (apply_tok out t)) s' /\ R tr s' l.
Proof.
  intros [b | len] out tr s l Hok HR; simpl in Hok.
  - apply sym_lit with (code := lit_code b).
    + apply lit_walk. exact Hok.
    + apply Z.ltb_lt. lia.
    + exact HR.
  - destruct Hok as [Hlen Hout]. destruct out as [|x o]; [congruence|].
    pose proof (run_ok_len len Hlen) as Hr. unfold run_ok in Hr.
    unfold tok_code, run_code in HR.
    destruct (find_len len_table 0 len (0, 3, 0)) as [[i base] extra].
    repeat (apply andb_prop in Hr; let H := fresh "C" in destruct Hr as [Hr H]).
    destruct (nth_error len_table (Z.to_nat (257 + i - 257))) as [[b' e']|] eqn:En; [|discriminate].
    apply andb_prop in C2. destruct C2 as [Eb Ee]. apply Z.eqb_eq in Eb. apply Z.eqb_eq in Ee. subst b' e'.
    rewrite <- !app_assoc in HR.
    simpl apply_tok.
    apply sym_run with (lcode := sym_code (257 + i)) (dcode := dist1_code) (sym := 257 + i)
                       (base := base) (extra := extra).
    + apply opt_eqb_eq. exact Hr.
    + apply negb_true_iff. exact C4.
    + apply negb_true_iff. exact C3.
    + exact En.
    + apply Z.leb_le. exact C1.
    + split; [apply Z.leb_le; exact C0 | apply Z.ltb_lt; exact C].
    + lia.
    + exact dist1_walk.
    + exact HR.
Qed.

Lemma fixed_syms : forall ts out tr s l, toks_ok out ts ->
  R tr s (flat_map tok_code ts ++ eob_code ++ l) ->
  exists m s', loop (sym_body fixed_lt fixed_dt) m out s = Ok (fold_left apply_tok ts out) s'
               /\ R tr s' l.
Proof.
  induction ts as [|t ts IH]; intros out tr s l Hok HR.
  - simpl in HR. destruct (sym_eob fixed_lt fixed_dt _ out _ _ _ eob_walk HR) as [s1 [H1 R1]].
    exists 1%nat, s1. split; [|exact R1].
    rewrite loop_S. rewrite (bind_ok _ _ _ _ _ _ _ H1). reflexivity.
  - destruct Hok as [Ht Hts].
    change (flat_map tok_code (t :: ts)) with (tok_code t ++ flat_map tok_code ts) in HR.
    rewrite <- app_assoc in HR.
    destruct (tok_step _ _ _ _ _ Ht HR) as [s1 [H1 R1]].
    destruct (IH _ _ _ _ Hts R1) as [m [s2 [H2 R2]]].
    exists (S m), s2. split; [|exact R2].
    rewrite loop_S. rewrite (bind_ok _ _ _ _ _ _ _ H1). exact H2.
Qed.

(* one final block of type 01 *)
Lemma fixed_block : forall ts out tr l, toks_ok out ts ->
  exists s', block_body out ([], pack (block_bits ts ++ l) ++ tr)
             = Ok (inr (fold_left apply_tok ts out)) s' /\ R tr s' l.
Proof.
  intros ts out tr l Hok.
  pose proof (R_init tr (block_bits ts ++ l)) as R0.
  unfold block_bits in R0 at 2.
  change (([true; true; false] ++ flat_map tok_code ts ++ eob_code) ++ l)
    with (true :: (bits_lsb 2 1 ++ (flat_map tok_code ts ++ eob_code) ++ l)) in R0.
  destruct (getbit_R _ _ _ _ R0) as [s1 [H1 R1]].
  assert (Hv : 0 <= 1 < 2 ^ Z.of_nat 2) by (change (2 ^ Z.of_nat 2) with 4; lia).
  destruct (getbits_R _ _ _ _ _ Hv R1) as [s2 [H2 R2]].
  rewrite <- app_assoc in R2.
  destruct (fixed_syms _ _ _ _ _ Hok R2) as [m [s3 [H3 R3]]].
  exists s3. split; [|exact R3].
  unfold block_body. rewrite (bind_ok _ _ _ _ _ _ _ H1). rewrite (bind_ok _ _ _ _ _ _ _ H2).
  change (1 =? 0) with false. change (1 =? 1) with true. cbv iota.
  assert (H4 : run_loop (sym_body fixed_lt fixed_dt) out s2 = Ok (fold_left apply_tok ts out) s3).
  { apply run_loop_any_fuel with (m := m).
    - intro a. apply wf_sym_body.
    - intro a. apply strict_sym_body.
    - exact H3.
    - discriminate. }
  rewrite (bind_ok _ _ _ _ _ _ _ H4). reflexivity.
Qed.

Theorem gunzip_gz_tokens : forall ts d, toks_ok [] ts -> rev (fold_left apply_tok ts []) = d ->
  gunzip (gz_tokens ts d) = Done d [].
Proof.
  intros ts d Hok Hd. unfold gunzip, gz_tokens, gunzip_m.
  erewrite bind_ok by apply gz_header_fixed.
  set (tr := le32 (crc32 d) ++ le32 (Z.of_nat (length d) mod 4294967296)).
  destruct (fixed_block ts [] tr [] Hok) as [s1 [H1 R1]]. rewrite app_nil_r in H1.
  assert (H2 : inflate_rev ([], pack (block_bits ts) ++ tr) = Ok (fold_left apply_tok ts []) s1).
  { unfold inflate_rev. apply run_loop_any_fuel with (m := 1%nat).
    - apply wf_block_body.
    - apply strict_block_body.
    - rewrite loop_S. rewrite (bind_ok _ _ _ _ _ _ _ H1). reflexivity.
    - discriminate. }
  rewrite (bind_ok _ _ _ _ _ _ _ H2).
  rewrite (bind_ok _ _ align _ _ tt ([], snd s1)) by reflexivity.
  rewrite (R_nil _ _ R1). cbv zeta.
  assert (Rv : rev' (fold_left apply_tok ts []) = d) by (unfold rev'; rewrite <- rev_alt; exact Hd).
  rewrite Rv. unfold tr.
  erewrite bind_ok by (apply get32_le32; apply crc32_range).
  rewrite Z.eqb_refl. cbn [negb].
  rewrite <- (app_nil_r (le32 (Z.of_nat (length d) mod 4294967296))).
  erewrite bind_ok by (apply get32_le32; apply Z.mod_pos_bound; lia).
  rewrite Z.eqb_refl. reflexivity.
Qed.

(* ------------------------------------------------------------------ literals only *)
Lemma lits_ok : forall d out, bytes d -> toks_ok out (map Lit d).
Proof.
  induction d as [|b d IH]; intros out H; simpl.
  - exact I.
  - inversion H; subst. split; [assumption | apply IH; assumption].
Qed.
Lemma lits_out : forall d out, fold_left apply_tok (map Lit d) out = rev d ++ out.
Proof.
  induction d as [|b d IH]; intros out; simpl.
  - reflexivity.
  - rewrite IH. rewrite <- app_assoc. reflexivity.
Qed.

Theorem gunzip_fixed_roundtrip : forall d, bytes d -> gunzip (gzip_fixed d) = Done d [].
Proof.
  intros d H. unfold gzip_fixed. apply gunzip_gz_tokens.
  - apply lits_ok. exact H.
  - rewrite lits_out, app_nil_r. apply rev_involutive.
Qed.

(* ------------------------------------------------------------------ run-length tokens *)
Lemma repeat_mid : forall (x : Z) n o, repeat x n ++ x :: o = x :: repeat x n ++ o.
Proof.
  intros x n o. change (x :: o) with ([x] ++ o). rewrite app_assoc, repeat_snoc. reflexivity.
Qed.
Lemma rev_repeat : forall (x : Z) n, rev (repeat x n) = repeat x n.
Proof.
  induction n; simpl; [reflexivity | rewrite IHn; apply repeat_snoc].
Qed.
Lemma toks_ok_app : forall a b out,
  toks_ok out a -> toks_ok (fold_left apply_tok a out) b -> toks_ok out (a ++ b).
Proof.
  induction a as [|t a IH]; intros b out Ha Hb; simpl in *.
  - exact Hb.
  - destruct Ha as [Ht Ha]. split; [exact Ht | apply IH; assumption].
Qed.

Lemma lits_rep : forall b n out, 0 <= b <= 255 ->
  fold_left apply_tok (repeat (Lit b) n) out = repeat b n ++ out /\ toks_ok out (repeat (Lit b) n).
Proof.
  intros b n. induction n as [|n IH]; intros out Hb; simpl.
  - split; [reflexivity | exact I].
  - destruct (IH (b :: out) Hb) as [E O]. split.
    + rewrite E. apply repeat_mid.
    + split; [exact Hb | exact O].
Qed.

Lemma go_spec : forall b k cur o, 0 <= b <= 255 -> 0 <= cur <= 258 ->
  fold_left apply_tok (go b k cur) (b :: o) = repeat b (k + Z.to_nat cur) ++ b :: o
  /\ toks_ok (b :: o) (go b k cur).
Proof.
  intros b k. induction k as [|k IH]; intros cur o Hb Hc.
  - change (go b 0 cur) with (flush b cur). unfold flush. destruct (cur <? 3) eqn:E.
    + apply lits_rep. exact Hb.
    + apply Z.ltb_ge in E. split.
      * reflexivity.
      * simpl. split; [|exact I]. split; [lia | discriminate].
  - change (go b (S k) cur) with (if cur =? 258 then Run 258 :: go b k 1 else go b k (cur + 1)).
    destruct (cur =? 258) eqn:E.
    + apply Z.eqb_eq in E. subst cur.
      change (fold_left apply_tok (Run 258 :: go b k 1) (b :: o))
        with (fold_left apply_tok (go b k 1) (repeat b (Z.to_nat 258) ++ b :: o)).
      rewrite repeat_mid.
      destruct (IH 1 (repeat b (Z.to_nat 258) ++ o) Hb) as [E1 O1]; [lia|]. split.
      * rewrite E1.
        replace (S k + Z.to_nat 258)%nat with ((k + Z.to_nat 1) + Z.to_nat 258)%nat by lia.
        rewrite (repeat_app b (k + Z.to_nat 1) (Z.to_nat 258)), <- app_assoc. rewrite (repeat_mid b (Z.to_nat 258) o). reflexivity.
      * split.
        -- split; [lia | discriminate].
        -- change (apply_tok (b :: o) (Run 258)) with (repeat b (Z.to_nat 258) ++ b :: o).
           rewrite repeat_mid. exact O1.
    + apply Z.eqb_neq in E.
      destruct (IH (cur + 1) o Hb) as [E1 O1]; [lia|]. split.
      * rewrite E1. replace (k + Z.to_nat (cur + 1))%nat with (S k + Z.to_nat cur)%nat by lia.
        reflexivity.
      * exact O1.
Qed.

Definition expand (bk : Z * nat) : list Z := repeat (fst bk) (S (snd bk)).
Lemma group_spec : forall d, bytes d ->
  concat (map expand (group d)) = d /\ Forall (fun bk => 0 <= fst bk <= 255) (group d).
Proof.
  induction d as [|b r IH]; intros H.
  - split; [reflexivity | constructor].
  - inversion H as [|? ? Hb Hr]; subst. destruct (IH Hr) as [E F].
    change (group (b :: r)) with
      (match group r with
       | (b', k) :: t => if b =? b' then (b, S k) :: t else (b, O) :: (b', k) :: t
       | [] => [(b, O)]
       end).
    destruct (group r) as [|[b' k] t].
    + simpl in E. subst r. split; [reflexivity | constructor; [exact Hb | constructor]].
    + destruct (b =? b') eqn:Eb.
      * apply Z.eqb_eq in Eb. subst b'. split.
        -- rewrite <- E. reflexivity.
        -- inversion F; subst. constructor; assumption.
      * split.
        -- rewrite <- E. reflexivity.
        -- constructor; [exact Hb | exact F].
Qed.

Definition tok_group (bk : Z * nat) : list token := Lit (fst bk) :: go (fst bk) (snd bk) 0.
Lemma groups_spec : forall g out, Forall (fun bk => 0 <= fst bk <= 255) g ->
  fold_left apply_tok (flat_map tok_group g) out = rev (concat (map expand g)) ++ out
  /\ toks_ok out (flat_map tok_group g).
Proof.
  induction g as [|[b k] g IH]; intros out F.
  - split; [reflexivity | exact I].
  - inversion F as [|? ? Hb Fg]; subst. simpl fst in Hb.
    change (flat_map tok_group ((b, k) :: g)) with ((Lit b :: go b k 0) ++ flat_map tok_group g).
    destruct (go_spec b k 0 out Hb) as [E1 O1]; [lia|].
    assert (E2 : fold_left apply_tok (Lit b :: go b k 0) out = repeat b k ++ b :: out).
    { change (fold_left apply_tok (Lit b :: go b k 0) out)
        with (fold_left apply_tok (go b k 0) (b :: out)).
      rewrite E1. replace (k + Z.to_nat 0)%nat with k by lia. reflexivity. }
    destruct (IH (repeat b k ++ b :: out) Fg) as [E3 O3]. split.
    + rewrite fold_left_app, E2, E3.
      change (map expand ((b, k) :: g)) with (repeat b (S k) :: map expand g).
      change (concat (repeat b (S k) :: map expand g)) with (repeat b (S k) ++ concat (map expand g)).
      rewrite rev_app_distr, rev_repeat, <- app_assoc. rewrite repeat_mid. reflexivity.
    + apply toks_ok_app.
      * split; [exact Hb | exact O1].
      * rewrite E2. exact O3.
Qed.

Theorem gunzip_fixed_rle_roundtrip : forall d, bytes d -> gunzip (gzip_fixed_rle d) = Done d [].
Proof.
  intros d H. unfold gzip_fixed_rle. destruct (group_spec d H) as [E F].
  destruct (groups_spec (group d) [] F) as [E1 O1].
  apply gunzip_gz_tokens.
  - exact O1.
  - change (tokenize d) with (flat_map tok_group (group d)).
    rewrite E1, app_nil_r, rev_involutive. exact E.
Qed.

(* truncated encoder outputs are NeedMore (instances of gunzip_truncated_needmore) *)
Corollary gzip_fixed_truncated : forall d p x, bytes d -> p ++ x = gzip_fixed d -> x <> [] ->
  gunzip p = NeedMore.
Proof.
  intros d p x H E Hx. apply gunzip_truncated_needmore with (x := x) (d := d); [|exact Hx].
  rewrite E. apply gunzip_fixed_roundtrip. exact H.
Qed.
Corollary gzip_fixed_rle_truncated : forall d p x, bytes d -> p ++ x = gzip_fixed_rle d -> x <> [] ->
  gunzip p = NeedMore.
Proof.
  intros d p x H E Hx. apply gunzip_truncated_needmore with (x := x) (d := d); [|exact Hx].
  rewrite E. apply gunzip_fixed_rle_roundtrip. exact H.
Qed.

(* ------------------------------------------------------------------ the encoders on short payloads
   (byte for byte the streams that the real zlib.decompress(.., 31) was given by mirror2.py; the
   deflate bytes of "hello" are also what zlib's own compressor emits for it: cb 48 cd c9 c9 07 00) *)
Example ex_gzip_fixed_empty :
  gzip_fixed [] = [31;139;8;0;0;0;0;0;0;255; 3;0; 0;0;0;0; 0;0;0;0].
Proof. vm_compute. reflexivity. Qed.
Example ex_gzip_fixed_one :
  gzip_fixed [42] = [31;139;8;0;0;0;0;0;0;255; 211;2;0; 91;38;185;9; 1;0;0;0].
Proof. vm_compute. reflexivity. Qed.
Example ex_gzip_fixed_hello :
  gzip_fixed [104;101;108;108;111]
  = [31;139;8;0;0;0;0;0;0;255; 203;72;205;201;201;7;0; 134;166;16;54; 5;0;0;0].
Proof. vm_compute. reflexivity. Qed.
Example ex_gzip_fixed_run12 :
  gzip_fixed [170;170;170;170;170;170;170;170;170;170;170;170;98]
  = [31;139;8;0;0;0;0;0;0;255; 91;181;106;213;170;85;171;86;173;90;181;106;213;170;36;0;
     130;213;247;51; 13;0;0;0].
Proof. vm_compute. reflexivity. Qed.
(* literal 170, <length 11, distance 1>, literal 98, end of block *)
Example ex_gzip_fixed_rle_run12 :
  gzip_fixed_rle [170;170;170;170;170;170;170;170;170;170;170;170;98]
  = [31;139;8;0;0;0;0;0;0;255; 91;133;4;146;0; 130;213;247;51; 13;0;0;0].
Proof. vm_compute. reflexivity. Qed.
Example ex_tokenize_run12 :
  tokenize [170;170;170;170;170;170;170;170;170;170;170;170;98] = [Lit 170; Run 11; Lit 98].
Proof. vm_compute. reflexivity. Qed.
(* literal, 258 + 258 + 258 + 225 repetitions *)
Example ex_gzip_fixed_rle_run1000 :
  gzip_fixed_rle (repeat 170 (N.to_nat 1000))
  = [31;139;8;0;0;0;0;0;0;255; 91;53;10;70;193;40;24;246;0;0; 160;46;155;189; 232;3;0;0].
Proof. vm_compute. reflexivity. Qed.
Example ex_tokenize_run1000 :
  tokenize (repeat 170 (N.to_nat 1000)) = [Lit 170; Run 258; Run 258; Run 258; Run 225].
Proof. vm_compute. reflexivity. Qed.
Example ex_gunzip_rle_run1000 :
  gunzip [31;139;8;0;0;0;0;0;0;255; 91;53;10;70;193;40;24;246;0;0; 160;46;155;189; 232;3;0;0]
  = Done (repeat 170 (N.to_nat 1000)) [].
Proof. vm_compute. reflexivity. Qed.

Print Assumptions gunzip_gz_tokens.
Print Assumptions gunzip_fixed_roundtrip.
Print Assumptions gunzip_fixed_rle_roundtrip.
Print Assumptions gzip_fixed_truncated.
Print Assumptions gzip_fixed_rle_truncated.
