(* Model of rxsci/compression/z.py and zstd.py (compress, decompress): the rxsci glue around a
   streaming codec object.  The codec itself (zlib / zstandard, C libraries) is NOT modelled: it
   enters as Section variables.  Executable; no proofs in this file.

   Python (both files, same text up to the codec constructor):
     compress.on_next(i):      try: observer.on_next(compressor.compress(i))   except: observer.on_error(e)
     compress.on_completed():  try: observer.on_next(compressor.flush()); observer.on_completed()
                               except: observer.on_error(e)
     decompress.on_next(i):    try: [zstd, repaired: if len(i) == 0: return]
                                    observer.on_next(decompressor.decompress(i))  except: observer.on_error(e)
     decompress.on_completed():try: if not decompressor.eof: observer.on_error(RuntimeError(...))
                                    else: observer.on_next(decompressor.flush()); observer.on_completed()
                               except: observer.on_error(e)
   The observer handed out by rx.create stops after its first terminal event and disposes the
   subscription to the source, so nothing is emitted (and the codec is not called) afterwards:
   the `alive` flag. *)
From Coq Require Import List Arith Bool NArith.
Import ListNotations.

Inductive event (O : Type) := Next (o : O) | Error | Completed.
Arguments Next {O}. Arguments Error {O}. Arguments Completed {O}.

(* driving a codec object alone: step by step, None as soon as a call raises *)
Section Codec.
Variables S I O : Type.
Variable step : S -> I -> option (S * O).
Fixpoint codec_run (s : S) (chunks : list I) : option (S * list O) :=
  match chunks with
  | [] => Some (s, [])
  | c :: cs => match step s c with
               | None => None
               | Some (s', o) => match codec_run s' cs with
                                 | None => None
                                 | Some (sf, os) => Some (sf, o :: os)
                                 end
               end
  end.
End Codec.
Arguments codec_run {S I O}.

Section Wrapper.
Variables I O : Type.                      (* what arrives / what the codec returns (bytes objects) *)

(* ---- compress ---- *)
Variable CS : Type.
Variable cinit : CS.                                (* zlib.compressobj(...) / ZstdCompressor().compressobj() *)
Variable cstep : CS -> I -> option (CS * O).        (* compressor.compress(i); None = raises *)
Variable cflush : CS -> option O.                   (* compressor.flush() *)

Definition c_on_next (st : bool * CS) (i : I) : (bool * CS) * list (event O) :=
  let '(alive, s) := st in
  if alive then
    match cstep s i with
    | Some (s', o) => ((true, s'), [Next o])
    | None => ((false, s), [Error])
    end
  else (st, []).
Definition c_on_completed (st : bool * CS) : list (event O) :=
  let '(alive, s) := st in
  if alive then match cflush s with Some o => [Next o; Completed] | None => [Error] end else [].
(* events emitted while each chunk is pushed, then (last element) at completion of the source *)
Fixpoint c_run (st : bool * CS) (chunks : list I) : list (list (event O)) :=
  match chunks with
  | [] => [c_on_completed st]
  | c :: cs => let '(st', ev) := c_on_next st c in ev :: c_run st' cs
  end.
Fixpoint c_final (st : bool * CS) (chunks : list I) : bool * CS :=
  match chunks with [] => st | c :: cs => c_final (fst (c_on_next st c)) cs end.
Definition compress (chunks : list I) : list (list (event O)) := c_run (true, cinit) chunks.

(* ---- decompress ---- *)
Variable DS : Type.
Variable dinit : DS.
Variable dstep : DS -> I -> option (DS * O).        (* decompressor.decompress(i); None = raises *)
Variable deof : DS -> bool.                         (* decompressor.eof *)
Variable dflush : DS -> option O.                   (* decompressor.flush() *)
Variable i_empty : I -> bool.                       (* len(i) == 0 *)
Variable skip_empty : bool.                         (* false: z.py; true: zstd.py (repaired) *)

Definition skipped (i : I) : bool := skip_empty && i_empty i.
Definition d_on_next (st : bool * DS) (i : I) : (bool * DS) * list (event O) :=
  let '(alive, s) := st in
  if alive then
    if skipped i then (st, [])
    else match dstep s i with
         | Some (s', o) => ((true, s'), [Next o])
         | None => ((false, s), [Error])
         end
  else (st, []).
Definition d_on_completed (st : bool * DS) : list (event O) :=
  let '(alive, s) := st in
  if alive then
    if deof s then match dflush s with Some o => [Next o; Completed] | None => [Error] end
    else [Error]
  else [].
Fixpoint d_run (st : bool * DS) (chunks : list I) : list (list (event O)) :=
  match chunks with
  | [] => [d_on_completed st]
  | c :: cs => let '(st', ev) := d_on_next st c in ev :: d_run st' cs
  end.
Fixpoint d_final (st : bool * DS) (chunks : list I) : bool * DS :=
  match chunks with [] => st | c :: cs => d_final (fst (d_on_next st c)) cs end.
Definition decompress (chunks : list I) : list (list (event O)) := d_run (true, dinit) chunks.
(* the chunks that reach the codec *)
Definition fed (chunks : list I) : list I := filter (fun c => negb (skipped c)) chunks.

Definition is_completed (e : event O) : bool := match e with Completed => true | _ => false end.
Definition is_error (e : event O) : bool := match e with Error => true | _ => false end.
End Wrapper.

(* ---- bytes level: chunks and codec outputs are byte strings ---- *)
Section Bytes.
Variable B : Type.
Fixpoint payload (evs : list (event (list B))) : list B :=
  match evs with
  | [] => []
  | Next o :: r => o ++ payload r
  | _ :: r => payload r
  end.
Definition b_empty (c : list B) : bool := length c =? 0.
(* the chunking "everything at once" that is admissible even when empty chunks are not fed *)
Definition canon (w : list B) : list (list B) := match w with [] => [] | _ => [w] end.

Variable CS : Type.
Variable cinit : CS.
Variable cstep : CS -> list B -> option (CS * list B).
Variable cflush : CS -> option (list B).
(* the whole compressed stream for a list of source chunks: outputs of every call, then flush *)
Definition enc_all (chunks : list (list B)) : option (list B) :=
  match codec_run cstep cinit chunks with
  | None => None
  | Some (s, outs) => match cflush s with None => None | Some f => Some (concat outs ++ f) end
  end.

Variable DS : Type.
Variable dinit : DS.
Variable dstep : DS -> list B -> option (DS * list B).
Variable deof : DS -> bool.
Variable dflush : DS -> option (list B).
(* a decoder object driven over `cs` and then asked for eof (and flushed when eof):
   None = some call raised; Some (bytes delivered, eof) *)
Definition dec_all (cs : list (list B)) : option (list B * bool) :=
  match codec_run dstep dinit cs with
  | None => None
  | Some (s, outs) =>
      if deof s then match dflush s with None => None | Some f => Some (concat outs ++ f, true) end
      else Some (concat outs, false)
  end.
End Bytes.
Arguments payload {B}. Arguments canon {B}. Arguments b_empty {B}.

(* ---- an executable toy codec: length-prefixed blocks of at most BLK bytes, end marker 0 ----
   encoder: buffers until BLK bytes are pending, then emits [BLK; b1..bBLK]; flush emits the pending
   bytes as a shorter block (if any) and the end marker [0].
   decoder: byte-driven; delivers payload bytes as they arrive; a length byte > BLK raises;
   after the end marker: the lenient decoder (zlib-like twin) ignores further data; the strict decoder
   (zstandard-like twin) raises on ANY further call, even with an empty chunk. *)
Definition BLK : nat := 4.
Definition toy_block (b : list N) : list N := N.of_nat (length b) :: b.
Fixpoint toy_cbytes (buf c : list N) : list N * list N :=         (* (pending, emitted) *)
  match c with
  | [] => (buf, [])
  | b :: c' => let buf' := buf ++ [b] in
               if length buf' =? BLK
               then let '(bf, out) := toy_cbytes [] c' in (bf, toy_block buf' ++ out)
               else toy_cbytes buf' c'
  end.
Definition toy_cstep (buf c : list N) : option (list N * list N) := Some (toy_cbytes buf c).
Definition toy_cflush (buf : list N) : option (list N) :=
  Some (match buf with [] => [] | _ => toy_block buf end ++ [0%N]).

Inductive toy_ds := DLen | DPay (r : nat) (* r+1 payload bytes to come *) | DEof.
Definition toy_dbyte (s : toy_ds) (b : N) : option (toy_ds * list N) :=
  match s with
  | DLen => if (b =? 0)%N then Some (DEof, [])
            else if (b <=? N.of_nat BLK)%N then Some (DPay (pred (N.to_nat b)), []) else None
  | DPay 0 => Some (DLen, [b])
  | DPay (S r) => Some (DPay r, [b])
  | DEof => Some (DEof, [])
  end.
Fixpoint toy_dbytes (s : toy_ds) (c : list N) : option (toy_ds * list N) :=
  match c with
  | [] => Some (s, [])
  | b :: c' => match toy_dbyte s b with
               | None => None
               | Some (s', o) => match toy_dbytes s' c' with
                                 | None => None
                                 | Some (sf, o') => Some (sf, o ++ o')
                                 end
               end
  end.
Definition toy_deof (s : toy_ds) : bool := match s with DEof => true | _ => false end.
Definition toy_dstep (strict : bool) (s : toy_ds) (c : list N) : option (toy_ds * list N) :=
  if strict && toy_deof s then None else toy_dbytes s c.
Definition toy_dflush (s : toy_ds) : option (list N) := Some [].

Definition toy_compress : list (list N) -> list (list (event (list N))) :=
  compress (list N) (list N) (list N) [] toy_cstep toy_cflush.
(* z.py with the lenient twin: toy_decompress false false; repaired zstd.py with the strict twin:
   toy_decompress true true; unrepaired zstd.py: toy_decompress false true *)
Definition toy_decompress (skip strict : bool) : list (list N) -> list (list (event (list N))) :=
  decompress (list N) (list N) toy_ds DLen (toy_dstep strict) toy_deof toy_dflush b_empty skip.
Definition toy_enc_all : list (list N) -> option (list N) := enc_all N (list N) [] toy_cstep toy_cflush.
Definition toy_dec_all (strict : bool) : list (list N) -> option (list N * bool) :=
  dec_all N toy_ds DLen (toy_dstep strict) toy_deof toy_dflush.

(* ---- a replay codec: the results of the calls made on a REAL codec object, in order, as recorded
   by the harness (payloads abstracted to identifiers).  Used only by the correspondence check to
   compare the wrapper's event structure when it runs on zlib / zstandard themselves. *)
Definition trace_step (tr : list (option N)) (_ : bool) : option (list (option N) * N) :=
  match tr with
  | Some o :: tr' => Some (tr', o)
  | _ => None                                     (* recorded: raised; or no further call recorded *)
  end.
