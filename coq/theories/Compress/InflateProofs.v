(* Structural facts about the gzip model of Inflate.v.
   - every reader of the model is monotone under appending bytes at the end of the input, never
     runs out of fuel, never un-reads a bit (predicate wf, proved compositionally: the proofs never
     look inside Huffman decoding beyond "a symbol costs at least one bit");
   - consequences for gunzip: extension, no early completion, truncation gives NeedMore;
   - round trip with the stored-block encoder;
   - Done implies a matching CRC-32 / ISIZE trailer. *)
From Coq Require Import List ZArith NArith Bool Lia.
From RxVerif Require Import Compress.Inflate.
Import ListNotations.
Local Open Scope Z_scope.

(* ------------------------------------------------------------------ the predicates *)
Definition app_st (s : state) (x : list Z) : state := (fst s, snd s ++ x).
Definition ext {A} (x : list Z) (r : res A) : res A :=
  match r with Ok a s => Ok a (app_st s x) | More => More | Fail => Fail | Fuel => Fuel end.

(* with more input behind it, a reader that did not ask for more gives the same verdict and leaves
   the added bytes untouched *)
Definition mono {A} (f : M A) : Prop := forall s x, f s = More \/ f (app_st s x) = ext x (f s).
Definition nofuel {A} (f : M A) : Prop := forall s, f s <> Fuel.
Definition noninc {A} (f : M A) : Prop := forall s a s', f s = Ok a s' -> (bits s' <= bits s)%nat.
Definition strict {A} (f : M A) : Prop := forall s a s', f s = Ok a s' -> (bits s' < bits s)%nat.
Definition wf {A} (f : M A) : Prop := mono f /\ nofuel f /\ noninc f.

Lemma bits_app : forall s x, (bits s <= bits (app_st s x))%nat.
Proof. intros [c r] x. unfold bits, app_st. simpl. rewrite app_length. lia. Qed.

(* ------------------------------------------------------------------ closure *)
Lemma wf_ret : forall A (a : A), wf (ret a).
Proof.
  intros A a. split; [|split].
  - intros s x. right. reflexivity.
  - intros s. discriminate.
  - intros s a' s' H. inversion H. subst. apply le_n.
Qed.
Lemma wf_fail : forall A, wf (@fail A).
Proof.
  intros A. split; [|split].
  - intros s x. right. reflexivity.
  - intros s. discriminate.
  - intros s a' s' H. discriminate.
Qed.

Lemma mono_bind : forall A B (f : M A) (g : A -> M B),
  mono f -> (forall a, mono (g a)) -> mono (bind f g).
Proof.
  intros A B f g Hf Hg s x. unfold bind.
  destruct (Hf s x) as [H | H].
  - left. rewrite H. reflexivity.
  - rewrite H. destruct (f s) as [a s0 | | |]; simpl.
    + apply Hg.
    + left. reflexivity.
    + right. reflexivity.
    + right. reflexivity.
Qed.
Lemma wf_bind : forall A B (f : M A) (g : A -> M B),
  wf f -> (forall a, wf (g a)) -> wf (bind f g).
Proof.
  intros A B f g [Hm [Hf Hn]] Hg. split; [|split].
  - apply mono_bind; [exact Hm | intro a; apply Hg].
  - intros s. unfold bind. specialize (Hf s). destruct (f s) as [a s0 | | |].
    + apply Hg.
    + discriminate.
    + discriminate.
    + congruence.
  - intros s b s'. unfold bind. destruct (f s) as [a s0 | | |] eqn:E; try discriminate.
    intros H. apply Hn in E. destruct (Hg a) as [_ [_ Hgn]]. apply Hgn in H. lia.
Qed.
Lemma strict_bind_l : forall A B (f : M A) (g : A -> M B),
  strict f -> (forall a, wf (g a)) -> strict (bind f g).
Proof.
  intros A B f g Hs Hg s b s'. unfold bind.
  destruct (f s) as [a s0 | | |] eqn:E; try discriminate.
  intros H. apply Hs in E. destruct (Hg a) as [_ [_ Hgn]]. apply Hgn in H. lia.
Qed.
Lemma strict_bind_r : forall A B (f : M A) (g : A -> M B),
  wf f -> (forall a, strict (g a)) -> strict (bind f g).
Proof.
  intros A B f g [_ [_ Hn]] Hg s b s'. unfold bind.
  destruct (f s) as [a s0 | | |] eqn:E; try discriminate.
  intros H. apply Hn in E. apply Hg in H. lia.
Qed.

(* ------------------------------------------------------------------ primitives *)
Lemma wf_getbit : wf getbit.
Proof.
  split; [|split].
  - intros [[|b c] [|z r]] x; simpl; auto.
  - intros [[|b c] [|z r]]; simpl; discriminate.
  - intros [[|b c] [|z r]] a s'; simpl; intros H; inversion H; subst; unfold bits; simpl; lia.
Qed.
Lemma strict_getbit : strict getbit.
Proof.
  intros [[|b c] [|z r]] a s'; simpl; intros H; inversion H; subst; unfold bits; simpl; lia.
Qed.
Lemma wf_align : wf align.
Proof.
  split; [|split].
  - intros s x. right. reflexivity.
  - intros s. discriminate.
  - intros [c r] a s' H. inversion H. subst. unfold bits. simpl. lia.
Qed.
Lemma wf_getbyte : wf getbyte.
Proof.
  split; [|split].
  - intros [c [|z r]] x; unfold getbyte; simpl; auto.
  - intros [c [|z r]]; unfold getbyte; simpl; discriminate.
  - intros [c [|z r]] a s'; unfold getbyte; simpl; intros H; inversion H; subst.
    unfold bits. simpl. lia.
Qed.
Lemma strict_getbyte : strict getbyte.
Proof.
  intros [c [|z r]] a s'; unfold getbyte; simpl; intros H; inversion H; subst.
  unfold bits. simpl. lia.
Qed.
Lemma wf_getbits : forall n, wf (getbits n).
Proof.
  induction n; simpl.
  - apply wf_ret.
  - apply wf_bind; [apply wf_getbit | intro b].
    apply wf_bind; [exact IHn | intro v; apply wf_ret].
Qed.
Lemma wf_getbytes : forall n acc, wf (getbytes n acc).
Proof.
  induction n; intros acc; simpl.
  - apply wf_ret.
  - apply wf_bind; [apply wf_getbyte | intro z; apply IHn].
Qed.
Lemma wf_get16 : wf get16.
Proof.
  unfold get16. apply wf_bind; [apply wf_getbyte | intro a].
  apply wf_bind; [apply wf_getbyte | intro b; apply wf_ret].
Qed.
Lemma wf_get32 : wf get32.
Proof.
  unfold get32. repeat (apply wf_bind; [apply wf_getbyte | intro]). apply wf_ret.
Qed.
Lemma wf_rep : forall A (f : M A) n, wf f -> wf (rep n f).
Proof.
  intros A f n Hf. induction n; simpl.
  - apply wf_ret.
  - apply wf_bind; [exact Hf | intro a].
    apply wf_bind; [exact IHn | intro l; apply wf_ret].
Qed.
Lemma wf_decode : forall t, wf (decode t).
Proof.
  induction t; simpl.
  - apply wf_fail.
  - apply wf_ret.
  - apply wf_bind; [apply wf_getbit | intros [|]; assumption].
Qed.
Lemma wf_decode_sym : forall t, wf (decode_sym t).
Proof.
  destruct t; simpl.
  - apply wf_fail.
  - apply wf_fail.
  - apply wf_bind; [apply wf_getbit | intros [|]; apply wf_decode].
Qed.
Lemma strict_decode_sym : forall t, strict (decode_sym t).
Proof.
  destruct t; simpl.
  - intros st a st' H. discriminate.
  - intros st a st' H. discriminate.
  - apply strict_bind_l; [apply strict_getbit | intros [|]; apply wf_decode].
Qed.

(* ------------------------------------------------------------------ loops *)
Section Loop.
Variables A B : Type.
Variable body : A -> M (A + B).

Lemma loop_mono : (forall a, mono (body a)) -> forall n a, mono (loop body n a).
Proof.
  intros Hb. induction n; intros a; simpl.
  - intros s x. right. reflexivity.
  - apply mono_bind; [apply Hb|]. intros [a' | b].
    + apply IHn.
    + apply wf_ret.
Qed.

(* a verdict other than "out of fuel" does not depend on the fuel *)
Lemma loop_more_fuel : forall n m a s r,
  loop body n a s = r -> r <> Fuel -> (n <= m)%nat -> loop body m a s = r.
Proof.
  induction n; intros m a s r H Hr Hle; simpl in H.
  - congruence.
  - destruct m as [|m]; [lia|]. simpl. unfold bind in *.
    destruct (body a s) as [[a' | b] s0 | | |]; try exact H.
    apply IHn; [exact H | exact Hr | lia].
Qed.

Lemma loop_nofuel : (forall a, nofuel (body a)) -> (forall a, strict (body a)) ->
  forall n a s, (bits s < n)%nat -> loop body n a s <> Fuel.
Proof.
  intros Hf Hs. induction n; intros a s Hlt; [lia|]. simpl. unfold bind.
  destruct (body a s) as [[a' | b] s0 | | |] eqn:E; try discriminate.
  - apply IHn. apply Hs in E. lia.
  - exfalso. exact (Hf a s E).
Qed.

Lemma loop_noninc : (forall a, noninc (body a)) -> forall n a, noninc (loop body n a).
Proof.
  intros Hn. induction n; intros a s b s'; simpl.
  - discriminate.
  - unfold bind. destruct (body a s) as [[a' | b'] s0 | | |] eqn:E; try discriminate.
    + intros H. apply Hn in E. apply IHn in H. lia.
    + intros H. inversion H; subst. eapply Hn. exact E.
Qed.

Lemma wf_run_loop : (forall a, wf (body a)) -> (forall a, strict (body a)) ->
  forall a, wf (run_loop body a).
Proof.
  intros Hw Hs a.
  assert (Hnf : forall s, run_loop body a s <> Fuel).
  { intros s. unfold run_loop. apply loop_nofuel.
    - intro a0. apply Hw.
    - exact Hs.
    - lia. }
  split; [|split].
  - intros s x. unfold run_loop.
    destruct (loop_mono (fun a0 => proj1 (Hw a0)) (S (bits s)) a s x) as [H | H].
    + left. exact H.
    + right. apply loop_more_fuel with (n := S (bits s)).
      * exact H.
      * specialize (Hnf s). unfold run_loop in Hnf.
        destruct (loop body (S (bits s)) a s); simpl; congruence.
      * pose proof (bits_app s x). lia.
  - exact Hnf.
  - intros s b s'. unfold run_loop. apply loop_noninc. intro a0. apply Hw.
Qed.

(* the verdict of run_loop is the verdict of the loop with any fuel that was enough *)
Lemma run_loop_any_fuel : (forall a, wf (body a)) -> (forall a, strict (body a)) ->
  forall m a s r, loop body m a s = r -> r <> Fuel -> run_loop body a s = r.
Proof.
  intros Hw Hs m a s r H Hr. unfold run_loop.
  destruct (Nat.le_ge_cases m (S (bits s))) as [Hle | Hge].
  - apply loop_more_fuel with (n := m); assumption.
  - assert (Hnf : loop body (S (bits s)) a s <> Fuel).
    { apply loop_nofuel; [intro a0; apply Hw | exact Hs | lia]. }
    rewrite <- H. symmetry.
    apply loop_more_fuel with (n := S (bits s)); [reflexivity | exact Hnf | exact Hge].
Qed.
End Loop.

(* ------------------------------------------------------------------ the model is wf *)
Ltac wf_tac :=
  repeat first
    [ assumption
    | apply wf_ret | apply wf_fail | apply wf_getbit | apply wf_getbits | apply wf_align
    | apply wf_getbyte | apply wf_getbytes | apply wf_get16 | apply wf_get32
    | apply wf_decode_sym | apply wf_rep
    | apply wf_bind; [ | intro ]
    | match goal with
      | |- wf (if ?c then _ else _) => destruct c
      | |- wf (match ?x with _ => _ end) => destruct x
      end ].

Lemma wf_sym_body : forall lt dt out, wf (sym_body lt dt out).
Proof. intros. unfold sym_body. wf_tac. Qed.
Lemma strict_sym_body : forall lt dt out, strict (sym_body lt dt out).
Proof.
  intros. unfold sym_body. apply strict_bind_l; [apply strict_decode_sym | intro]. wf_tac.
Qed.
Lemma wf_stored : forall out, wf (stored out).
Proof. intros. unfold stored. wf_tac. Qed.
Lemma wf_cl_fin : forall total acc n, wf (cl_fin total acc n).
Proof. intros. unfold cl_fin. wf_tac. Qed.
Lemma wf_cl_body : forall clt total st, wf (cl_body clt total st).
Proof.
  intros clt total [acc n]. unfold cl_body.
  repeat first [ apply wf_cl_fin | apply wf_fail | apply wf_getbits | apply wf_decode_sym
               | apply wf_bind; [ | intro ]
               | match goal with
                 | |- wf (if ?c then _ else _) => destruct c
                 | |- wf (match ?x with _ => _ end) => destruct x
                 end ].
Qed.
Lemma strict_cl_body : forall clt total st, strict (cl_body clt total st).
Proof.
  intros clt total [acc n]. unfold cl_body.
  apply strict_bind_l; [apply strict_decode_sym | intro sym].
  repeat first [ apply wf_cl_fin | apply wf_fail | apply wf_getbits
               | apply wf_bind; [ | intro ]
               | match goal with
                 | |- wf (if ?c then _ else _) => destruct c
                 | |- wf (match ?x with _ => _ end) => destruct x
                 end ].
Qed.
Lemma wf_dyn_header : wf dyn_header.
Proof.
  unfold dyn_header.
  repeat first
    [ apply wf_ret | apply wf_fail | apply wf_getbits | apply wf_rep
    | apply wf_run_loop; [ intro; apply wf_cl_body | intro; apply strict_cl_body ]
    | apply wf_bind; [ | intro ]
    | match goal with
      | |- wf (if ?c then _ else _) => destruct c
      | |- wf (match ?x with _ => _ end) => destruct x
      end ].
Qed.
Lemma wf_block_body : forall out, wf (block_body out).
Proof.
  intros. unfold block_body.
  repeat first
    [ apply wf_ret | apply wf_fail | apply wf_getbit | apply wf_getbits | apply wf_stored
    | apply wf_dyn_header
    | apply wf_run_loop; [ intro; apply wf_sym_body | intro; apply strict_sym_body ]
    | apply wf_bind; [ | intro ]
    | match goal with
      | |- wf (if ?c then _ else _) => destruct c
      | |- wf (match ?x with _ => _ end) => destruct x
      end ].
Qed.
Lemma strict_block_body : forall out, strict (block_body out).
Proof.
  intros. unfold block_body. apply strict_bind_l; [apply strict_getbit | intro fin].
  repeat first
    [ apply wf_ret | apply wf_fail | apply wf_getbits | apply wf_stored | apply wf_dyn_header
    | apply wf_run_loop; [ intro; apply wf_sym_body | intro; apply strict_sym_body ]
    | apply wf_bind; [ | intro ]
    | match goal with
      | |- wf (if ?c then _ else _) => destruct c
      | |- wf (match ?x with _ => _ end) => destruct x
      end ].
Qed.
Lemma wf_inflate_rev : wf inflate_rev.
Proof.
  unfold inflate_rev. apply wf_run_loop; [apply wf_block_body | apply strict_block_body].
Qed.
Lemma wf_zstring_body : forall h, wf (zstring_body h).
Proof. intros. unfold zstring_body. wf_tac. Qed.
Lemma strict_zstring_body : forall h, strict (zstring_body h).
Proof.
  intros. unfold zstring_body. apply strict_bind_l; [apply strict_getbyte | intro; apply wf_ret].
Qed.
Lemma wf_gz_header : wf gz_header.
Proof.
  unfold gz_header.
  repeat first
    [ apply wf_ret | apply wf_fail | apply wf_getbyte | apply wf_getbytes | apply wf_get16
    | apply wf_run_loop; [ apply wf_zstring_body | apply strict_zstring_body ]
    | apply wf_bind; [ | intro ]
    | match goal with
      | |- wf (if ?c then _ else _) => destruct c
      | |- wf (match ?x with _ => _ end) => destruct x
      end ].
Qed.
Theorem wf_gunzip_m : wf gunzip_m.
Proof.
  unfold gunzip_m.
  repeat first
    [ apply wf_ret | apply wf_fail | apply wf_gz_header | apply wf_inflate_rev | apply wf_align
    | apply wf_get32
    | apply wf_bind; [ | intro ]
    | match goal with
      | |- wf (if ?c then _ else _) => destruct c
      end ].
Qed.

(* ------------------------------------------------------------------ (P2) gunzip and prefixes *)
Lemma gunzip_m_app : forall p x,
  gunzip_m ([], p) = More \/ gunzip_m ([], p ++ x) = ext x (gunzip_m ([], p)).
Proof. intros p x. exact (proj1 wf_gunzip_m ([], p) x). Qed.

Theorem gunzip_never_out_of_fuel : forall s, gunzip s <> OutOfFuel.
Proof.
  intros s. unfold gunzip.
  pose proof (proj1 (proj2 wf_gunzip_m) ([], s)) as H.
  destruct (gunzip_m ([], s)) as [d [c r] | | |]; congruence.
Qed.

(* a verdict other than NeedMore is final: more input behind it changes nothing but `rest` *)
Theorem gunzip_extend_done : forall p d r,
  gunzip p = Done d r -> forall x, gunzip (p ++ x) = Done d (r ++ x).
Proof.
  intros p d r H x. unfold gunzip in *.
  destruct (gunzip_m_app p x) as [Hm | Hm].
  - rewrite Hm in H. discriminate.
  - rewrite Hm. destruct (gunzip_m ([], p)) as [d0 [c r0] | | |]; try discriminate.
    inversion H; subst. reflexivity.
Qed.
Theorem gunzip_extend_bad : forall p, gunzip p = Bad -> forall x, gunzip (p ++ x) = Bad.
Proof.
  intros p H x. unfold gunzip in *.
  destruct (gunzip_m_app p x) as [Hm | Hm].
  - rewrite Hm in H. discriminate.
  - rewrite Hm. destruct (gunzip_m ([], p)) as [d0 [c r0] | | |]; try discriminate. reflexivity.
Qed.

(* no strict prefix of a stream that is complete with nothing left over is complete *)
Theorem gunzip_no_early_done : forall p x d,
  gunzip (p ++ x) = Done d [] -> x <> [] -> forall d' r', gunzip p <> Done d' r'.
Proof.
  intros p x d H Hx d' r' Hp.
  rewrite (gunzip_extend_done p d' r' Hp x) in H. inversion H.
  destruct (app_eq_nil _ _ H2) as [_ Hx0]. exact (Hx Hx0).
Qed.

(* a truncated complete stream is NeedMore: neither complete, nor invalid, nor out of fuel *)
Theorem gunzip_truncated_needmore : forall p x d,
  gunzip (p ++ x) = Done d [] -> x <> [] -> gunzip p = NeedMore.
Proof.
  intros p x d H Hx.
  destruct (gunzip p) as [d' r' | | |] eqn:E.
  - exfalso. exact (gunzip_no_early_done p x d H Hx d' r' E).
  - reflexivity.
  - rewrite (gunzip_extend_bad p E x) in H. discriminate.
  - exfalso. exact (gunzip_never_out_of_fuel p E).
Qed.
Corollary gunzip_strict_prefix_needmore : forall s d, gunzip s = Done d [] ->
  forall n, (n < length s)%nat -> gunzip (firstn n s) = NeedMore.
Proof.
  intros s d H n Hn. apply gunzip_truncated_needmore with (x := skipn n s) (d := d).
  - rewrite firstn_skipn. exact H.
  - intro E. pose proof (skipn_length n s) as L. rewrite E in L. simpl in L. lia.
Qed.

(* ------------------------------------------------------------------ (P3) Done implies the trailer matches *)
Lemma bind_ok_inv : forall A B (f : M A) (g : A -> M B) s b s',
  bind f g s = Ok b s' -> exists a s0, f s = Ok a s0 /\ g a s0 = Ok b s'.
Proof.
  intros A B f g s b s'. unfold bind. destruct (f s) as [a s0 | | |]; try discriminate.
  intros H. exists a, s0. split; [reflexivity | exact H].
Qed.

(* whatever gunzip accepts consists of some header, a DEFLATE stream that inflates to d, and,
   at the next byte boundary, two little-endian 32-bit words equal to crc32 d and |d| mod 2^32 *)
Theorem gunzip_done_trailer : forall s d r, gunzip s = Done d r ->
  exists s1 out s2 crc s3 isize c4,
    gz_header ([], s) = Ok tt s1 /\ inflate_rev s1 = Ok out s2 /\ d = rev out /\
    get32 ([], snd s2) = Ok crc s3 /\ get32 s3 = Ok isize (c4, r) /\
    crc = crc32 d /\ isize = Z.of_nat (length d) mod 4294967296.
Proof.
  intros s d r H. unfold gunzip in H.
  destruct (gunzip_m ([], s)) as [d0 [c r0] | | |] eqn:E; try discriminate.
  inversion H; subst. clear H. unfold gunzip_m in E.
  apply bind_ok_inv in E. destruct E as [[] [s1 [H1 E]]].
  apply bind_ok_inv in E. destruct E as [out [s2 [H2 E]]].
  apply bind_ok_inv in E. destruct E as [[] [s2' [H3 E]]].
  unfold align in H3. inversion H3; subst. clear H3.
  cbv zeta in E.
  apply bind_ok_inv in E. destruct E as [crc [s3 [H4 E]]].
  destruct (crc =? crc32 (rev' out)) eqn:T1; simpl in E; [|discriminate].
  apply bind_ok_inv in E. destruct E as [isize [s4 [H5 E]]].
  destruct (isize =? Z.of_nat (length (rev' out)) mod 4294967296) eqn:T2; [|discriminate].
  unfold ret in E. inversion E; subst. clear E.
  apply Z.eqb_eq in T1. apply Z.eqb_eq in T2.
  assert (R : rev' out = rev out) by (unfold rev'; symmetry; apply rev_alt).
  rewrite R in *.
  exists s1, out, s2, crc, s3, isize, c. repeat split; assumption.
Qed.
(* in contrapositive form: a trailer that does not match is never accepted *)
Corollary gunzip_trailer_mismatch_not_done : forall s s1 out s2 crc s3 isize s4,
  gz_header ([], s) = Ok tt s1 -> inflate_rev s1 = Ok out s2 ->
  get32 ([], snd s2) = Ok crc s3 -> get32 s3 = Ok isize s4 ->
  crc <> crc32 (rev out) \/ isize <> Z.of_nat (length (rev out)) mod 4294967296 ->
  gunzip s = Bad.
Proof.
  intros s s1 out s2 crc s3 isize s4 H1 H2 H3 H4 Hne.
  unfold gunzip, gunzip_m. unfold bind at 1. rewrite H1.
  unfold bind at 1. rewrite H2. unfold bind at 1. unfold align at 1. cbv zeta.
  assert (R : rev' out = rev out) by (unfold rev'; symmetry; apply rev_alt).
  rewrite R.
  unfold bind at 1. rewrite H3.
  destruct (crc =? crc32 (rev out)) eqn:T1; simpl.
  - unfold bind at 1. rewrite H4.
    destruct Hne as [Hne | Hne].
    + apply Z.eqb_eq in T1. contradiction.
    + apply Z.eqb_neq in Hne. rewrite Hne. reflexivity.
  - reflexivity.
Qed.

(* ------------------------------------------------------------------ (P1) round trip with stored blocks *)
Lemma bind_ok : forall A B (f : M A) (g : A -> M B) s a s0,
  f s = Ok a s0 -> bind f g s = g a s0.
Proof. intros A B f g s a s0 H. unfold bind. rewrite H. reflexivity. Qed.

Lemma le16_val : forall n, 0 <= n < 65536 -> n mod 256 + 256 * ((n / 256) mod 256) = n.
Proof. intros n H. Z.div_mod_to_equations. lia. Qed.
Lemma le32_val : forall n, 0 <= n < 4294967296 ->
  n mod 256 + 256 * ((n / 256) mod 256) + 65536 * ((n / 65536) mod 256)
  + 16777216 * ((n / 16777216) mod 256) = n.
Proof. intros n H. Z.div_mod_to_equations. lia. Qed.

Lemma get16_le16 : forall n c r, 0 <= n < 65536 -> get16 (c, le16 n ++ r) = Ok n ([], r).
Proof.
  intros n c r H.
  change (le16 n ++ r) with (n mod 256 :: (n / 256) mod 256 :: r).
  unfold get16, bind, getbyte, ret. cbn [snd].
  rewrite (le16_val n H). reflexivity.
Qed.
Lemma get32_le32 : forall n c r, 0 <= n < 4294967296 -> get32 (c, le32 n ++ r) = Ok n ([], r).
Proof.
  intros n c r H.
  change (le32 n ++ r) with (n mod 256 :: (n / 256) mod 256 :: (n / 65536) mod 256
                             :: (n / 16777216) mod 256 :: r).
  unfold get32, bind, getbyte, ret. cbn [snd].
  rewrite (le32_val n H). reflexivity.
Qed.

Lemma getbytes_app : forall c out r,
  getbytes (length c) out ([], c ++ r) = Ok (rev c ++ out) ([], r).
Proof.
  induction c as [|z c IH]; intros out r; simpl.
  - reflexivity.
  - unfold bind, getbyte. simpl. rewrite IH. rewrite <- app_assoc. reflexivity.
Qed.

Lemma stored_ok : forall c out cur r, Z.of_nat (length c) <= 65535 ->
  stored out (cur, le16 (Z.of_nat (length c)) ++ le16 (65535 - Z.of_nat (length c)) ++ c ++ r)
  = Ok (rev c ++ out) ([], r).
Proof.
  intros c out cur r H. unfold stored.
  rewrite (bind_ok _ _ align _ _ tt ([], le16 (Z.of_nat (length c))
             ++ le16 (65535 - Z.of_nat (length c)) ++ c ++ r)) by reflexivity.
  erewrite bind_ok by (apply get16_le16; lia).
  erewrite bind_ok by (apply get16_le16; lia).
  replace (Z.of_nat (length c) + (65535 - Z.of_nat (length c)) =? 65535) with true
    by (symmetry; apply Z.eqb_eq; lia).
  rewrite Nat2Z.id. apply getbytes_app.
Qed.

(* the three header bits BFINAL, BTYPE=00 of a stored block *)
Lemma block_body_stored_header : forall (fin : bool) out rest,
  block_body out ([], (if fin then 1 else 0) :: rest)
  = bind (stored out) (fun out' => ret (if fin then inr out' else inl out'))
         ([false; false; false; false; false], rest).
Proof. intros fin out rest. destruct fin; reflexivity. Qed.

Lemma block_body_stored : forall fin c out r, Z.of_nat (length c) <= 65535 ->
  block_body out ([], stored_block fin c ++ r)
  = Ok (if fin then inr (rev c ++ out) else inl (rev c ++ out)) ([], r).
Proof.
  intros fin c out r H. unfold stored_block.
  change (((if fin then 1 else 0) :: le16 (Z.of_nat (length c))
           ++ le16 (65535 - Z.of_nat (length c)) ++ c) ++ r)
    with ((if fin then 1 else 0) :: (le16 (Z.of_nat (length c))
           ++ le16 (65535 - Z.of_nat (length c)) ++ c) ++ r).
  rewrite block_body_stored_header.
  rewrite <- !app_assoc.
  erewrite bind_ok by (apply stored_ok; exact H).
  reflexivity.
Qed.

Lemma blk_Z : Z.of_nat blk = 65535.
Proof. unfold blk. rewrite N_nat_Z. reflexivity. Qed.
Opaque blk.

Lemma loop_S : forall A B (body : A -> M (A + B)) k a,
  loop body (S k) a
  = bind (body a) (fun r => match r with inl a' => loop body k a' | inr b => ret b end).
Proof. reflexivity. Qed.
Lemma stored_blocks_S : forall f d, stored_blocks (S f) d =
  if Z.of_nat (length d) <=? 65535 then stored_block true d
  else stored_block false (firstn blk d) ++ stored_blocks f (skipn blk d).
Proof. reflexivity. Qed.

Lemma inflate_stored_blocks : forall fuel d out r, (length d <= fuel)%nat ->
  exists m, loop block_body m out ([], stored_blocks fuel d ++ r) = Ok (rev d ++ out) ([], r).
Proof.
  assert (Hfin : forall d out r, Z.of_nat (length d) <= 65535 ->
    loop block_body 1 out ([], stored_block true d ++ r) = Ok (rev d ++ out) ([], r)).
  { intros d out r H. rewrite loop_S.
    erewrite bind_ok by (apply block_body_stored; exact H). reflexivity. }
  induction fuel as [|f IH]; intros d out r Hlen.
  - exists 1%nat. change (stored_blocks 0 d) with (stored_block true d). apply Hfin. lia.
  - rewrite stored_blocks_S. destruct (Z.of_nat (length d) <=? 65535) eqn:E.
    + exists 1%nat. apply Hfin. apply Z.leb_le. exact E.
    + apply Z.leb_gt in E. pose proof blk_Z as HB.
      assert (L1 : length (firstn blk d) = blk) by (apply firstn_length_le; lia).
      assert (L2 : (length (skipn blk d) <= f)%nat) by (rewrite skipn_length; lia).
      destruct (IH (skipn blk d) (rev (firstn blk d) ++ out) r L2) as [m Hm].
      exists (S m). rewrite <- app_assoc. rewrite loop_S.
      erewrite bind_ok by (apply block_body_stored; lia).
      cbv beta iota. rewrite Hm. rewrite app_assoc. rewrite <- rev_app_distr. rewrite firstn_skipn. reflexivity.
Qed.

Lemma inflate_rev_stored_blocks : forall d r,
  inflate_rev ([], stored_blocks (length d) d ++ r) = Ok (rev d) ([], r).
Proof.
  intros d r. destruct (inflate_stored_blocks (length d) d [] r (le_n _)) as [m Hm].
  rewrite app_nil_r in Hm. unfold inflate_rev.
  apply run_loop_any_fuel with (m := m).
  - apply wf_block_body.
  - apply strict_block_body.
  - exact Hm.
  - discriminate.
Qed.

Lemma gz_header_fixed : forall r, gz_header ([], gz_fixed_header ++ r) = Ok tt ([], r).
Proof. intros r. reflexivity. Qed.

Lemma crc32_range : forall d, 0 <= crc32 d < 4294967296.
Proof. intros d. unfold crc32. apply Z.mod_pos_bound. lia. Qed.

(* no condition on d is needed: stored blocks carry their bytes verbatim *)
Theorem gunzip_stored_roundtrip_any : forall d, gunzip (gzip_stored d) = Done d [].
Proof.
  intros d. unfold gunzip, gzip_stored, gunzip_m.
  erewrite bind_ok by apply gz_header_fixed.
  erewrite bind_ok by apply inflate_rev_stored_blocks.
  rewrite (bind_ok _ _ align _ _ tt ([], le32 (crc32 d)
             ++ le32 (Z.of_nat (length d) mod 4294967296))) by reflexivity.
  cbv zeta.
  assert (R : rev' (rev d) = d) by (unfold rev'; rewrite <- rev_alt; apply rev_involutive).
  rewrite R.
  erewrite bind_ok by (apply get32_le32; apply crc32_range).
  rewrite Z.eqb_refl. cbn [negb].
  rewrite <- (app_nil_r (le32 (Z.of_nat (length d) mod 4294967296))).
  erewrite bind_ok by (apply get32_le32; apply Z.mod_pos_bound; lia).
  rewrite Z.eqb_refl. reflexivity.
Qed.

Definition bytes (d : list Z) : Prop := Forall (fun z => 0 <= z <= 255) d.
Theorem gunzip_stored_roundtrip : forall d, bytes d -> gunzip (gzip_stored d) = Done d [].
Proof. intros d _. apply gunzip_stored_roundtrip_any. Qed.

(* the encoder produces bytes when given bytes *)
Lemma le16_bytes : forall n, bytes (le16 n).
Proof.
  intros n. unfold le16, bytes. repeat constructor;
  match goal with |- _ <= ?a mod 256 => pose proof (Z.mod_pos_bound a 256 eq_refl); lia
                | |- ?a mod 256 <= _ => pose proof (Z.mod_pos_bound a 256 eq_refl); lia end.
Qed.
Lemma le32_bytes : forall n, bytes (le32 n).
Proof.
  intros n. unfold le32, bytes. repeat constructor;
  match goal with |- _ <= ?a mod 256 => pose proof (Z.mod_pos_bound a 256 eq_refl); lia
                | |- ?a mod 256 <= _ => pose proof (Z.mod_pos_bound a 256 eq_refl); lia end.
Qed.
Lemma bytes_app : forall a b, bytes a -> bytes b -> bytes (a ++ b).
Proof. intros a b Ha Hb. apply Forall_app. split; assumption. Qed.
Lemma stored_block_bytes : forall fin c, bytes c -> bytes (stored_block fin c).
Proof.
  intros fin c H. unfold stored_block. constructor.
  - destruct fin; lia.
  - apply bytes_app; [apply le16_bytes|]. apply bytes_app; [apply le16_bytes | exact H].
Qed.
Lemma stored_blocks_bytes : forall fuel d, bytes d -> bytes (stored_blocks fuel d).
Proof.
  induction fuel as [|f IH]; intros d H.
  - change (stored_blocks 0 d) with (stored_block true d). apply stored_block_bytes. exact H.
  - rewrite stored_blocks_S. destruct (Z.of_nat (length d) <=? 65535).
    + apply stored_block_bytes. exact H.
    + apply bytes_app.
      * apply stored_block_bytes. unfold bytes in *. rewrite <- (firstn_skipn blk d) in H.
        apply Forall_app in H. apply H.
      * apply IH. unfold bytes in *. rewrite <- (firstn_skipn blk d) in H.
        apply Forall_app in H. apply H.
Qed.
Theorem gzip_stored_bytes : forall d, bytes d -> bytes (gzip_stored d).
Proof.
  intros d H. unfold gzip_stored. apply bytes_app.
  - unfold gz_fixed_header, bytes. repeat constructor; lia.
  - apply bytes_app; [apply stored_blocks_bytes; exact H|].
    apply bytes_app; apply le32_bytes.
Qed.

(* the instance of H3 for this encoder: no strict prefix of gzip_stored d is taken for complete,
   it is NeedMore *)
Corollary gzip_stored_truncated : forall d p x, p ++ x = gzip_stored d -> x <> [] ->
  gunzip p = NeedMore.
Proof.
  intros d p x E Hx. apply gunzip_truncated_needmore with (x := x) (d := d); [|exact Hx].
  rewrite E. apply gunzip_stored_roundtrip_any.
Qed.

Print Assumptions wf_gunzip_m.
Print Assumptions gunzip_never_out_of_fuel.
Print Assumptions gunzip_extend_done.
Print Assumptions gunzip_extend_bad.
Print Assumptions gunzip_no_early_done.
Print Assumptions gunzip_truncated_needmore.
Print Assumptions gunzip_strict_prefix_needmore.
Print Assumptions gunzip_done_trailer.
Print Assumptions gunzip_trailer_mismatch_not_done.
Print Assumptions gunzip_stored_roundtrip_any.
Print Assumptions gunzip_stored_roundtrip.
Print Assumptions gzip_stored_bytes.
Print Assumptions gzip_stored_truncated.
