(* The codec laws H1-H3 of WrapperProofs.v (hypotheses of the C16 theorems) PROVED for a zstd codec
   built from the frame model of ZstdFrame.v, and the C16 round-trip / truncation theorems
   instantiated with it (no hypotheses left).

   The codec objects:
   - encoder: buffers everything it is given, flush emits zstd_raw of the buffer (one valid zstd
     frame made of Raw blocks; the real library decompresses it: mirror.py);
   - decoder: buffers everything it is given; a call raises when zstd_unraw of the buffer is Bad;
     eof = zstd_unraw of the buffer is Done; flush hands out the data.  With once = true a call
     made after eof raises, as the real decompressobj does ("cannot use a decompressobj multiple
     times"), even for an empty chunk: this is why zstd.py had to stop handing empty chunks to the
     decoder (skip = true), and the theorems need once = true -> skip = true.
   Deviations from the real decompressobj: it hands out the data incrementally, this object hands
   it out in one piece at flush (the wrapper theorems only speak about the concatenation of what
   is delivered and about Completed / Error); it decodes Compressed blocks, this object refuses a
   frame that has one (its own encoder never writes one). *)
From Coq Require Import List Arith ZArith NArith Bool Lia.
From RxVerif Require Import Compress.Wrapper Compress.WrapperProofs.
From RxVerif Require Import Compress.ZstdFrame Compress.ZstdFrameProofs.
Import ListNotations.
Local Open Scope Z_scope.

Definition zs_cstep (buf c : list Z) : option (list Z * list Z) := Some (buf ++ c, []).
Definition zs_cflush (buf : list Z) : option (list Z) := Some (zstd_raw buf).

Definition zs_deof (buf : list Z) : bool :=
  match zstd_unraw buf with Done _ _ => true | _ => false end.
Definition zs_dstep (once : bool) (buf c : list Z) : option (list Z * list Z) :=
  if once && zs_deof buf then None
  else match zstd_unraw (buf ++ c) with
       | Bad => None
       | OutOfFuel => None
       | _ => Some (buf ++ c, [])
       end.
Definition zs_dflush (buf : list Z) : option (list Z) :=
  match zstd_unraw buf with Done d _ => Some d | _ => Some [] end.

Definition zs_enc_all : list (list Z) -> option (list Z) :=
  enc_all Z (list Z) [] zs_cstep zs_cflush.
Definition zs_dec_all (once : bool) : list (list Z) -> option (list Z * bool) :=
  dec_all Z (list Z) [] (zs_dstep once) zs_deof zs_dflush.
Definition zs_compress : list (list Z) -> list (list (event (list Z))) :=
  compress (list Z) (list Z) (list Z) [] zs_cstep zs_cflush.
Definition zs_decompress (skip once : bool) : list (list Z) -> list (list (event (list Z))) :=
  decompress (list Z) (list Z) (list Z) [] (zs_dstep once) zs_deof zs_dflush b_empty skip.

Lemma concat_nils : forall (X : Type) (cs : list X), concat (map (fun _ => @nil Z) cs) = [].
Proof. induction cs; simpl; auto. Qed.

Lemma zs_crun : forall chunks buf,
  codec_run zs_cstep buf chunks = Some (buf ++ concat chunks, map (fun _ => []) chunks).
Proof.
  induction chunks as [|c cs IH]; intros buf; simpl.
  - rewrite app_nil_r. reflexivity.
  - rewrite IH. rewrite <- app_assoc. reflexivity.
Qed.
Lemma zs_enc_all_eq : forall chunks, zs_enc_all chunks = Some (zstd_raw (concat chunks)).
Proof.
  intros chunks. unfold zs_enc_all, enc_all. rewrite zs_crun. simpl.
  rewrite concat_nils. reflexivity.
Qed.

(* what the decoder object reports depends on the concatenation of what it was fed *)
Definition zs_ref (w : list Z) : option (list Z * bool) :=
  match zstd_unraw w with Done d _ => Some (d, true) | _ => Some ([], false) end.

Section ZstdCodec.
Variables skip once : bool.
Hypothesis once_needs_skip : once = true -> skip = true.

(* over a prefix of a complete frame no call raises: the buffer is never invalid, and before a
   non-empty chunk that belongs to the frame it is not at eof yet *)
Lemma zs_drun : forall cs buf suf d,
  zstd_unraw (buf ++ concat cs ++ suf) = Done d [] ->
  (once = true -> Forall (fun c : list Z => c <> []) cs) ->
  codec_run (zs_dstep once) buf cs = Some (buf ++ concat cs, map (fun _ => []) cs).
Proof.
  induction cs as [|c cs IH]; intros buf suf d Hw Hne; simpl.
  - rewrite app_nil_r. reflexivity.
  - simpl in Hw. rewrite <- app_assoc in Hw.
    assert (Hs : zs_dstep once buf c = Some (buf ++ c, [])).
    { unfold zs_dstep.
      assert (He : once && zs_deof buf = false).
      { destruct once; [|reflexivity]. simpl.
        specialize (Hne eq_refl). inversion Hne as [|c0 cs0 Hc Hcs]; subst.
        unfold zs_deof.
        rewrite (zstd_unraw_truncated_needmore buf (c ++ concat cs ++ suf) d Hw).
        - reflexivity.
        - destruct c as [|z c]; [contradiction | simpl; discriminate]. }
      rewrite He.
      destruct (zstd_unraw (buf ++ c)) as [d0 r0 | | |] eqn:E; try reflexivity.
      - exfalso. pose proof (zstd_unraw_extend_bad (buf ++ c) E (concat cs ++ suf)) as Hb.
        rewrite <- app_assoc in Hb. rewrite Hb in Hw. discriminate.
      - exfalso. exact (zstd_unraw_never_out_of_fuel _ E). }
    rewrite Hs. rewrite (IH (buf ++ c) suf d).
    + rewrite <- app_assoc. reflexivity.
    + rewrite <- app_assoc. exact Hw.
    + intro Ho. specialize (Hne Ho). inversion Hne; assumption.
Qed.

Lemma zs_dec_all_ref : forall cs suf d,
  zstd_unraw (concat cs ++ suf) = Done d [] -> adm Z skip cs ->
  zs_dec_all once cs = zs_ref (concat cs).
Proof.
  intros cs suf d Hw Ha. unfold zs_dec_all, dec_all.
  rewrite (zs_drun cs [] suf d).
  - simpl. unfold zs_deof, zs_dflush, zs_ref. rewrite concat_nils.
    destruct (zstd_unraw (concat cs)); reflexivity.
  - exact Hw.
  - intro Ho. apply Ha. apply once_needs_skip. exact Ho.
Qed.

Theorem zs_H1 : forall chunks w cs1 cs2 suf,
  zs_enc_all chunks = Some w -> concat cs1 ++ suf = w -> concat cs2 = concat cs1 ->
  adm Z skip cs1 -> adm Z skip cs2 -> zs_dec_all once cs1 = zs_dec_all once cs2.
Proof.
  intros chunks w cs1 cs2 suf Hw Hc H12 A1 A2.
  rewrite zs_enc_all_eq in Hw. injection Hw as Hw.
  assert (Hd : zstd_unraw (concat cs1 ++ suf) = Done (concat chunks) []).
  { rewrite Hc. rewrite <- Hw. apply zstd_unraw_raw. }
  rewrite (zs_dec_all_ref cs1 suf _ Hd A1).
  rewrite <- H12 in Hd. rewrite (zs_dec_all_ref cs2 suf _ Hd A2).
  rewrite H12. reflexivity.
Qed.

Theorem zs_H2 : forall chunks,
  exists w, zs_enc_all chunks = Some w /\ zs_dec_all once (canon w) = Some (concat chunks, true).
Proof.
  intros chunks. exists (zstd_raw (concat chunks)). split; [apply zs_enc_all_eq|].
  pose proof (zstd_unraw_raw (concat chunks)) as Hd.
  rewrite (zs_dec_all_ref (canon (zstd_raw (concat chunks))) [] (concat chunks)).
  - rewrite canon_concat. unfold zs_ref. rewrite Hd. reflexivity.
  - rewrite canon_concat. rewrite app_nil_r. exact Hd.
  - apply canon_adm.
Qed.

Theorem zs_H3 : forall chunks w pre suf,
  zs_enc_all chunks = Some w -> pre ++ suf = w -> suf <> [] ->
  forall o, zs_dec_all once (canon pre) <> Some (o, true).
Proof.
  intros chunks w pre suf Hw Hc Hs o.
  rewrite zs_enc_all_eq in Hw. injection Hw as Hw.
  assert (Hd : zstd_unraw (pre ++ suf) = Done (concat chunks) []).
  { rewrite Hc. rewrite <- Hw. apply zstd_unraw_raw. }
  assert (Hn : zstd_unraw pre = NeedMore).
  { apply zstd_unraw_truncated_needmore with (x := suf) (d := concat chunks); assumption. }
  rewrite (zs_dec_all_ref (canon pre) suf (concat chunks)).
  - rewrite canon_concat. unfold zs_ref. rewrite Hn. discriminate.
  - rewrite canon_concat. exact Hd.
  - apply canon_adm.
Qed.

(* the C16 statements for the zstd codec *)
Theorem zs_roundtrip_any_rechunking : forall (chunks rechunk : list (list Z)),
  concat rechunk = payload (concat (zs_compress chunks)) ->
  In Completed (concat (zs_compress chunks)) /\
  payload (concat (zs_decompress skip once rechunk)) = concat chunks /\
  In Completed (concat (zs_decompress skip once rechunk)) /\
  ~ In Error (concat (zs_decompress skip once rechunk)).
Proof.
  unfold zs_compress, zs_decompress.
  apply roundtrip_any_rechunking.
  - exact zs_H1.
  - exact zs_H2.
Qed.

Theorem zs_truncation_is_error : forall (chunks rechunk : list (list Z)) (suf : list Z),
  suf <> [] ->
  concat rechunk ++ suf = payload (concat (zs_compress chunks)) ->
  In Error (concat (zs_decompress skip once rechunk)) /\
  ~ In Completed (concat (zs_decompress skip once rechunk)).
Proof.
  unfold zs_compress, zs_decompress.
  apply truncation_is_error.
  - exact zs_H1.
  - exact zs_H2.
  - exact zs_H3.
Qed.
End ZstdCodec.

(* the compressed stream is one zstd frame that the model reads completely: standalone validity *)
Theorem zs_compress_payload_valid : forall chunks,
  zstd_scan (payload (concat (zs_compress chunks))) = ZDone [] /\
  zstd_unraw (payload (concat (zs_compress chunks))) = Done (concat chunks) [].
Proof.
  intros chunks. unfold zs_compress.
  destruct (compress_payload Z (list Z) [] zs_cstep zs_cflush chunks _ (zs_enc_all_eq chunks))
    as [E _].
  rewrite E. split; [apply zstd_scan_raw | apply zstd_unraw_raw].
Qed.

(* why the unrepaired zstd wrapper (empty chunks handed on) over the use-once decoder fails the
   round trip: an empty chunk after the end of the frame *)
Lemma zs_unrepaired_refuted : exists chunks rechunk,
  concat rechunk = payload (concat (zs_compress chunks)) /\
  In Error (concat (zs_decompress false true rechunk)).
Proof.
  exists [[7]], [[40; 181; 47; 253; 0; 56; 9; 0; 0; 7]; []]. split; [reflexivity|].
  vm_compute. auto.
Qed.

Print Assumptions zs_H1.
Print Assumptions zs_H2.
Print Assumptions zs_H3.
Print Assumptions zs_roundtrip_any_rechunking.
Print Assumptions zs_truncation_is_error.
Print Assumptions zs_compress_payload_valid.
Print Assumptions zs_unrepaired_refuted.
