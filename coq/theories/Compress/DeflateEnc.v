(* Encoders that produce gzip files whose DEFLATE stream is ONE final block of type 01 (fixed
   Huffman codes, RFC 1951 3.2.6).  Executable; no proofs in this file.
   - gzip_fixed: every byte as a literal;
   - gzip_fixed_rle: additionally, repetitions of one byte as <length 3..258, distance 1> pairs.
   Huffman codes are written most significant bit first, extra bits least significant bit first,
   and the bit stream fills each byte from its least significant bit (RFC 1951 3.1.1). *)
From Coq Require Import List ZArith NArith Bool Lia.
From RxVerif Require Import Compress.Inflate.
Import ListNotations.
Local Open Scope Z_scope.

(* ------------------------------------------------------------------ bit stream -> bytes *)
Definition byte8 (b0 b1 b2 b3 b4 b5 b6 b7 : bool) : Z :=
  Z.b2z b0 + 2 * Z.b2z b1 + 4 * Z.b2z b2 + 8 * Z.b2z b3 + 16 * Z.b2z b4 + 32 * Z.b2z b5
  + 64 * Z.b2z b6 + 128 * Z.b2z b7.
(* the last byte is completed with zero bits *)
Fixpoint pack (l : list bool) : list Z :=
  match l with
  | [] => []
  | b0 :: b1 :: b2 :: b3 :: b4 :: b5 :: b6 :: b7 :: r => byte8 b0 b1 b2 b3 b4 b5 b6 b7 :: pack r
  | _ => [byte8 (nth 0 l false) (nth 1 l false) (nth 2 l false) (nth 3 l false)
                (nth 4 l false) (nth 5 l false) (nth 6 l false) (nth 7 l false)]
  end.

(* the n low bits of v, most significant first (Huffman codes) / least significant first (extra
   bits) *)
Fixpoint bits_msb (n : nat) (v : Z) : list bool :=
  match n with O => [] | S k => Z.testbit v (Z.of_nat k) :: bits_msb k v end.
Fixpoint bits_lsb (n : nat) (v : Z) : list bool :=
  match n with O => [] | S k => Z.odd v :: bits_lsb k (v / 2) end.

(* ------------------------------------------------------------------ fixed Huffman codes, RFC 1951 3.2.6
     lit value   bits   codes
     0 - 143      8     00110000  .. 10111111
     144 - 255    9     110010000 .. 111111111
     256 - 279    7     0000000   .. 0010111
     280 - 287    8     11000000  .. 11000111 *)
Definition lit_code (b : Z) : list bool :=
  if b <? 144 then bits_msb 8 (48 + b) else bits_msb 9 (400 + (b - 144)).
(* end of block and length symbols, 256 .. 287 *)
Definition sym_code (s : Z) : list bool :=
  if s <? 280 then bits_msb 7 (s - 256) else bits_msb 8 (192 + (s - 280)).
Definition eob_code : list bool := sym_code 256.
(* distance codes: 5 bits; distance 1 is code 0, without extra bits *)
Definition dist1_code : list bool := bits_msb 5 0.

(* length symbol for len in 3..258: the last row of the length table (Inflate.len_table: base,
   number of extra bits) whose base is not above len; so 258 is symbol 285, as the RFC says *)
Fixpoint find_len (tbl : list (Z * Z)) (i len : Z) (best : Z * Z * Z) : Z * Z * Z :=
  match tbl with
  | [] => best
  | (base, extra) :: r => if base <=? len then find_len r (i + 1) len (i, base, extra) else best
  end.

Inductive token := Lit (b : Z) | Run (len : Z).      (* Run: distance 1 *)

Definition run_code (len : Z) : list bool :=
  let '(i, base, extra) := find_len len_table 0 len (0, 3, 0) in
  sym_code (257 + i) ++ bits_lsb (Z.to_nat extra) (len - base) ++ dist1_code.
Definition tok_code (t : token) : list bool :=
  match t with Lit b => lit_code b | Run len => run_code len end.

(* BFINAL = 1, BTYPE = 01 (two bits, least significant first) *)
Definition block_bits (ts : list token) : list bool :=
  [true; true; false] ++ flat_map tok_code ts ++ eob_code.

Definition gz_tokens (ts : list token) (d : list Z) : list Z :=
  gz_fixed_header ++ pack (block_bits ts)
  ++ le32 (crc32 d) ++ le32 (Z.of_nat (length d) mod 4294967296).

Definition gzip_fixed (d : list Z) : list Z := gz_tokens (map Lit d) d.

(* ------------------------------------------------------------------ run-length tokens *)
(* (b, k): b followed by k more b *)
Fixpoint group (d : list Z) : list (Z * nat) :=
  match d with
  | [] => []
  | b :: r => match group r with
              | (b', k) :: t => if b =? b' then (b, S k) :: t else (b, O) :: (b', k) :: t
              | [] => [(b, O)]
              end
  end.
(* cur repetitions are pending *)
Definition flush (b cur : Z) : list token :=
  if cur <? 3 then repeat (Lit b) (Z.to_nat cur) else [Run cur].
Fixpoint go (b : Z) (k : nat) (cur : Z) : list token :=
  match k with
  | O => flush b cur
  | S k' => if cur =? 258 then Run 258 :: go b k' 1 else go b k' (cur + 1)
  end.
Definition tokenize (d : list Z) : list token :=
  flat_map (fun bk => Lit (fst bk) :: go (fst bk) (snd bk) 0) (group d).

Definition gzip_fixed_rle (d : list Z) : list Z := gz_tokens (tokenize d) d.
