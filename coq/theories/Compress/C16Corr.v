(* Correspondence checker for C16.  Executable only.
   CToy:   the REAL rxsci wrappers were run with the codec objects replaced (in the harness process)
           by the Python twin of the toy codec; the model instantiated with the toy codec must emit
           the same events while the same chunk is pushed / at completion.
   CTraceC/CTraceD: the REAL wrappers were run on zlib / zstandard through a recording proxy; the
           model instantiated with the replay codec (results of the recorded calls, payloads
           abstracted to identifiers) must emit the same events, consume exactly the recorded
           calls, and flush as often as recorded. *)
From Coq Require Import List ZArith NArith Bool Arith.
From RxVerif Require Import Compress.ZstdFrame.
From RxVerif Require Import Compress.Inflate.
From RxVerif Require Import Base.Corr Compress.Wrapper.
Import ListNotations.

Inductive c16case :=
| CRaised
| CToy (skip strict : bool) (chunks : list (list N)) (cobs : list (list (event (list N))))
       (rechunk : list (list N)) (dobs : list (list (event (list N))))
| CTraceC (nchunks : nat) (calls : list (option N)) (flush : option N) (nflush : nat)
          (obs : list (list (event N)))
| CTraceD (skip : bool) (empties : list bool) (calls : list (option N)) (eof : bool)
          (flush : option N) (nflush : nat) (obs : list (list (event N)))
(* the model of gzip decompression (Compress/Inflate.v) against the real zlib:
   CGunzip: stream = what the REAL z.compress wrapper emitted for payload (any deflate block types); gunzip must
            return the payload with nothing left over, every strict prefix cut at `cuts` must be NeedMore, and the
            stored-block encoder of the model must round-trip the payload;
   mutants: arbitrary (bit-flipped / cut / extended) streams, each with zlib's verdict on it: 0 = complete
            with this payload and no unused data, 1 = valid so far but incomplete, 2 = zlib.error.  Compared one
            way only where zlib's own choice between "error" and "incomplete" is an implementation matter:
            complete <-> Done with the same payload; otherwise the model must not say Done. *)
| CGunzip (stream payload : list Z) (cuts : list nat) (mutants : list (list Z * N * list Z))
(* the model of the zstd frame structure (Compress/ZstdFrame.v) against the real zstandard library: stream = what the
   REAL zstd.compress wrapper emitted; it must scan as one complete frame, every strict prefix cut at `cuts` must be
   incomplete, and with `trail` appended the scan must stop after the frame with exactly `trail` left *)
| CZstdScan (stream : list Z) (cuts : list nat) (trail : list Z).

Definition ns_eqb := list_eqb N.eqb.
Definition ev_eqb {O} (eqb : O -> O -> bool) (a b : event O) : bool :=
  match a, b with
  | Next x, Next y => eqb x y
  | Error, Error => true
  | Completed, Completed => true
  | _, _ => false
  end.
Definition evss_eqb {O} (eqb : O -> O -> bool) := list_eqb (list_eqb (ev_eqb eqb)).

(* all recorded calls were made: nothing is left, or only the call that raised *)
Definition consumed (tr : list (option N)) : bool :=
  match tr with [] => true | [None] => true | _ => false end.

Definition gunzip_verdict_ok (stream : list Z) (verdict : N) (payload : list Z) : bool :=
  match gunzip stream with
  | Done d [] => N.eqb verdict 0 && zs_eqb d payload
  | Done _ (_ :: _) => negb (N.eqb verdict 0)
  | NeedMore | Bad => negb (N.eqb verdict 0)
  | OutOfFuel => false
  end.

Definition c16_check (c : c16case) : bool :=
  match c with
  | CRaised => false                     (* the wrappers never raise to the caller *)
  | CToy skip strict chunks cobs rechunk dobs =>
      evss_eqb ns_eqb (toy_compress chunks) cobs
      && evss_eqb ns_eqb (toy_decompress skip strict rechunk) dobs
  | CTraceC nchunks calls flush nflush obs =>
      let chunks := repeat false nchunks in
      let fin := c_final bool N (list (option N)) trace_step (true, calls) chunks in
      evss_eqb N.eqb (compress bool N (list (option N)) calls trace_step (fun _ => flush) chunks) obs
      && consumed (snd fin) && (nflush =? (if fst fin then 1 else 0))
  | CTraceD skip empties calls eof flush nflush obs =>
      let fin := d_final bool N (list (option N)) trace_step (fun b => b) skip (true, calls) empties in
      evss_eqb N.eqb (decompress bool N (list (option N)) calls trace_step (fun _ => eof) (fun _ => flush)
                        (fun b => b) skip empties) obs
      && consumed (snd fin) && (nflush =? (if fst fin && eof then 1 else 0))
  | CGunzip stream payload cuts mutants =>
      (match gunzip stream with Done d [] => zs_eqb d payload | _ => false end)
      && forallb (fun c => match gunzip (firstn c stream) with NeedMore => true | _ => false end) cuts
      && (match gunzip (gzip_stored payload) with Done d [] => zs_eqb d payload | _ => false end)
      && forallb (fun m => gunzip_verdict_ok (fst (fst m)) (snd (fst m)) (snd m)) mutants
  | CZstdScan stream cuts trail =>
      (match zstd_scan stream with ZDone [] => true | _ => false end)
      && forallb (fun c => match zstd_scan (firstn c stream) with ZNeedMore => true | _ => false end) cuts
      && (match zstd_scan (stream ++ trail) with ZDone r => zs_eqb r trail | _ => false end)
  end.
