(* General LZ77 tokens in ONE final DEFLATE block of type 01 (fixed Huffman codes), and a simple
   greedy compressor producing such tokens.  Executable; no proofs in this file.
   A token is a literal byte or a match <length 3..258, distance 1..32768>: "copy length bytes
   starting distance bytes back in the output", byte by byte, so that the copy may overlap the
   bytes it produces (RFC 1951 3.2.3).  Encoding per RFC 1951 3.2.5 / 3.2.6: length symbol
   (257..285) + extra bits, then distance symbol (0..29, 5 bits) + extra bits. *)
From Coq Require Import List ZArith NArith Bool Lia.
From RxVerif Require Import Compress.Inflate Compress.DeflateEnc.
Import ListNotations.
Local Open Scope Z_scope.

Inductive tok := TLit (b : Z) | TMatch (len dist : Z).

(* out is the output so far, reversed (head = last byte).  n bytes, each a copy of the byte d1 + 1
   positions back *)
Fixpoint lz_copy (n d1 : nat) (out : list Z) : list Z :=
  match n with
  | O => out
  | S k => lz_copy k d1 (nth d1 out 0 :: out)
  end.
Definition apply_tok2 (out : list Z) (t : tok) : list Z :=
  match t with
  | TLit b => b :: out
  | TMatch len dist => lz_copy (Z.to_nat len) (Z.to_nat dist - 1) out
  end.
(* the bytes a token list stands for *)
(* rev' = List.rev, tail recursive *)
Definition lz_expand (ts : list tok) : list Z := rev' (fold_left apply_tok2 ts []).

(* symbol = the last row of the table (base, number of extra bits) whose base is not above the
   value; extra bits = value - base, least significant bit first *)
Definition match_code (len dist : Z) : list bool :=
  let '(i, base, extra) := find_len len_table 0 len (0, 3, 0) in
  let '(j, dbase, dextra) := find_len dist_table 0 dist (0, 1, 0) in
  sym_code (257 + i) ++ bits_lsb (Z.to_nat extra) (len - base)
  ++ bits_msb 5 j ++ bits_lsb (Z.to_nat dextra) (dist - dbase).
Definition tok_code2 (t : tok) : list bool :=
  match t with TLit b => lit_code b | TMatch len dist => match_code len dist end.

Definition block_bits2 (ts : list tok) : list bool :=
  [true; true; false] ++ flat_map tok_code2 ts ++ eob_code.
Definition gz_tokens2 (ts : list tok) (d : list Z) : list Z :=
  gz_fixed_header ++ pack (block_bits2 ts)
  ++ le32 (crc32 d) ++ le32 (Z.of_nat (length d) mod 4294967296).

(* ------------------------------------------------------------------ a greedy compressor *)
(* how many leading bytes of rest (at most cap) a copy from d1 + 1 back reproduces *)
Fixpoint match_len (cap d1 : nat) (out rest : list Z) : nat :=
  match cap, rest with
  | S c, b :: r => match nth_error out d1 with
                   | Some x => if x =? b then S (match_len c d1 (b :: out) r) else O
                   | None => O
                   end
  | _, _ => O
  end.
(* longest match over the distances d1 + 1 .. d1 + w; the nearest one among equals *)
Fixpoint best (w d1 : nat) (out rest : list Z) (bl bd : nat) : nat * nat :=
  match w with
  | O => (bl, bd)
  | S w' => let l := match_len 258 d1 out rest in
            if (bl <? l)%nat then best w' (S d1) out rest l d1 else best w' (S d1) out rest bl bd
  end.
(* the candidate is CHECKED before it is used: the copy must reproduce the next l bytes *)
Definition usable (l d1 : nat) (out rest : list Z) : bool :=
  (3 <=? Z.of_nat l) && (Z.of_nat l <=? 258) && (Z.of_nat (S d1) <=? 32768)
  && match nth_error out d1 with Some _ => true | None => false end
  && list_eqb (firstn l (lz_copy l d1 out)) (rev (firstn l rest)).
Fixpoint lz_go (fuel w : nat) (out rest : list Z) : list tok :=
  match fuel with
  | O => []
  | S f =>
      match rest with
      | [] => []
      | b :: r =>
          let '(l, d1) := best w O out rest O O in
          if usable l d1 out rest
          then TMatch (Z.of_nat l) (Z.of_nat (S d1)) :: lz_go f w (lz_copy l d1 out) (skipn l rest)
          else TLit b :: lz_go f w (b :: out) r
      end
  end.
(* w: how far back matches are looked for *)
Definition lz_tokens (w : nat) (d : list Z) : list tok := lz_go (length d) w [] d.
Definition gzip_lz (w : nat) (d : list Z) : list Z := gz_tokens2 (lz_tokens w d) d.
