(* Executable model of gzip decompression (RFC 1952 wrapper around RFC 1951 DEFLATE): what
   zlib.decompressobj(wbits=31) does to a complete or truncated gzip stream (first member only:
   what follows the trailer is returned as `rest`, like unused_data).  No proofs in this file.

   Reader: a state-passing monad over (bits left of the byte being read, bytes not yet touched).
   Every primitive only looks at the front of the input, so all of them are monotone under
   appending bytes at the end (InflateProofs.v).

   Known deviations from zlib, all on INVALID streams only (timing of the error, never the verdict
   on a complete stream): an error is reported as soon as the model sees it, zlib sometimes needs
   a few more input bytes before raising (e.g. an all-zero code-length code). *)
From Coq Require Import List ZArith NArith Bool Lia.
Import ListNotations.
Local Open Scope Z_scope.

(* ------------------------------------------------------------------ reader monad *)
Definition state : Type := (list bool * list Z)%type.
Inductive res (A : Type) : Type :=
| Ok (a : A) (s : state)
| More                    (* input exhausted *)
| Fail                    (* invalid stream *)
| Fuel.                   (* a fuelled loop ran out: proved unreachable *)
Arguments Ok {A}. Arguments More {A}. Arguments Fail {A}. Arguments Fuel {A}.
Definition M (A : Type) : Type := state -> res A.

Definition ret {A} (a : A) : M A := fun s => Ok a s.
Definition fail {A} : M A := fun _ => Fail.
Definition bind {A B} (f : M A) (g : A -> M B) : M B :=
  fun s => match f s with Ok a s' => g a s' | More => More | Fail => Fail | Fuel => Fuel end.

(* number of unread bits *)
Definition bits (s : state) : nat := (length (fst s) + 8 * length (snd s))%nat.

(* DEFLATE packs bits starting from the least significant bit of each byte *)
Definition getbit : M bool := fun s =>
  match s with
  | (b :: c, r) => Ok b (c, r)
  | ([], []) => More
  | ([], z :: r) => Ok (Z.testbit z 0)
                       ([Z.testbit z 1; Z.testbit z 2; Z.testbit z 3; Z.testbit z 4;
                         Z.testbit z 5; Z.testbit z 6; Z.testbit z 7], r)
  end.
(* n bits, first bit read = least significant *)
Fixpoint getbits (n : nat) : M Z :=
  match n with
  | O => ret 0
  | S k => bind getbit (fun b => bind (getbits k) (fun v => ret (Z.b2z b + 2 * v)))
  end.
(* skip to the next byte boundary *)
Definition align : M unit := fun s => Ok tt ([], snd s).
(* next whole byte (callers are at a byte boundary; the rest of a partial byte is dropped) *)
Definition getbyte : M Z := fun s =>
  match snd s with [] => More | z :: r => Ok z ([], r) end.
(* n bytes, pushed on `acc` (so: reversed) *)
Fixpoint getbytes (n : nat) (acc : list Z) : M (list Z) :=
  match n with
  | O => ret acc
  | S k => bind getbyte (fun z => getbytes k (z :: acc))
  end.
Definition get16 : M Z := bind getbyte (fun a => bind getbyte (fun b => ret (a + 256 * b))).
Definition get32 : M Z :=
  bind getbyte (fun a => bind getbyte (fun b => bind getbyte (fun c => bind getbyte (fun d =>
  ret (a + 256 * b + 65536 * c + 16777216 * d))))).
Fixpoint rep {A} (n : nat) (f : M A) : M (list A) :=
  match n with
  | O => ret []
  | S k => bind f (fun a => bind (rep k f) (fun l => ret (a :: l)))
  end.

(* loops: the body says continue (inl) or stop (inr) *)
Fixpoint loop {A B} (body : A -> M (A + B)) (n : nat) (a : A) : M B :=
  match n with
  | O => fun _ => Fuel
  | S k => bind (body a) (fun r => match r with inl a' => loop body k a' | inr b => ret b end)
  end.
(* every body used below reads at least one bit per turn, so one more than the number of unread
   bits is enough fuel *)
Definition run_loop {A B} (body : A -> M (A + B)) (a : A) : M B :=
  fun s => loop body (S (bits s)) a s.

(* ------------------------------------------------------------------ Huffman *)
Inductive tree := Empty | Leaf (s : Z) | Node (l r : tree).

Fixpoint insert (path : list bool) (s : Z) (t : tree) : tree :=
  match path with
  | [] => match t with Empty => Leaf s | _ => t end
  | b :: p =>
      match t with
      | Empty => if b then Node Empty (insert p s Empty) else Node (insert p s Empty) Empty
      | Node l r => if b then Node l (insert p s r) else Node (insert p s l) r
      | Leaf _ => t
      end
  end.
(* the `len` low bits of code, most significant first: Huffman codes are packed MSB first *)
Fixpoint code_path (len : nat) (code : Z) : list bool :=
  match len with O => [] | S k => Z.testbit code (Z.of_nat k) :: code_path k code end.
Fixpoint index_from (i : Z) (l : list Z) : list (Z * Z) :=
  match l with [] => [] | x :: r => (i, x) :: index_from (i + 1) r end.
(* canonical codes (RFC 1951 3.2.2): within one length, consecutive codes in symbol order *)
Fixpoint ins_len (len : Z) (ln : nat) (syms : list (Z * Z)) (code : Z) (t : tree) : Z * tree :=
  match syms with
  | [] => (code, t)
  | (s, l) :: r => if l =? len then ins_len len ln r (code + 1) (insert (code_path ln code) s t)
                   else ins_len len ln r code t
  end.
Fixpoint build_from (lns : list nat) (syms : list (Z * Z)) (code : Z) (t : tree) : tree :=
  match lns with
  | [] => t
  | ln :: r => let '(code', t') := ins_len (Z.of_nat ln) ln syms code t in
               build_from r syms (2 * code') t'
  end.
Definition all_lens : list nat := [1;2;3;4;5;6;7;8;9;10;11;12;13;14;15]%nat.
Definition count_len (lens : list Z) (len : Z) : Z :=
  fold_left (fun n l => if l =? len then n + 1 else n) lens 0.
(* zlib inftrees.c: left = 1; per length: left = 2*left - count; negative: over-subscribed *)
Fixpoint kraft (lns : list nat) (lens : list Z) (left : Z) : option Z :=
  match lns with
  | [] => Some left
  | ln :: r => let left' := 2 * left - count_len lens (Z.of_nat ln) in
               if left' <? 0 then None else kraft r lens left'
  end.
(* incomplete codes are accepted by zlib only for literal/length and distance codes whose longest
   code has one bit (or that have no code at all) *)
Definition mk_tree (allow_incomplete : bool) (lens : list Z) : option tree :=
  match kraft all_lens lens 1 with
  | None => None
  | Some lft =>
      if (lft =? 0) || (allow_incomplete && forallb (fun l => l <=? 1) lens)
      then Some (build_from all_lens (index_from 0 lens) 0 Empty)
      else None
  end.

Fixpoint decode (t : tree) : M Z :=
  match t with
  | Empty => fail
  | Leaf s => ret s
  | Node l r => bind getbit (fun b => if b then decode r else decode l)
  end.
(* a symbol costs at least one bit *)
Definition decode_sym (t : tree) : M Z :=
  match t with
  | Node l r => bind getbit (fun b => if b then decode r else decode l)
  | _ => fail
  end.

(* ------------------------------------------------------------------ LZ77 *)
Definition len_table : list (Z * Z) :=
  [(3,0);(4,0);(5,0);(6,0);(7,0);(8,0);(9,0);(10,0);(11,1);(13,1);(15,1);(17,1);(19,2);(23,2);
   (27,2);(31,2);(35,3);(43,3);(51,3);(59,3);(67,4);(83,4);(99,4);(115,4);(131,5);(163,5);
   (195,5);(227,5);(258,0)].
Definition dist_table : list (Z * Z) :=
  [(1,0);(2,0);(3,0);(4,0);(5,1);(7,1);(9,2);(13,2);(17,3);(25,3);(33,4);(49,4);(65,5);(97,5);
   (129,6);(193,6);(257,7);(385,7);(513,8);(769,8);(1025,9);(1537,9);(2049,10);(3073,10);
   (4097,11);(6145,11);(8193,12);(12289,12);(16385,13);(24577,13)].

Fixpoint take_opt (n : nat) (l : list Z) : option (list Z) :=
  match n with
  | O => Some []
  | S k => match l with
           | [] => None
           | x :: r => match take_opt k r with None => None | Some t => Some (x :: t) end
           end
  end.
Fixpoint copy_slow (d1 : nat) (len : nat) (out : list Z) : option (list Z) :=
  match len with
  | O => Some out
  | S k => match nth_error out d1 with None => None | Some b => copy_slow d1 k (b :: out) end
  end.
(* out is the output so far, REVERSED (head = last byte written).  Copy len bytes starting dist
   bytes back; None when dist reaches before the start of the output. *)
Definition copy (dist len : Z) (out : list Z) : option (list Z) :=
  if dist <=? 0 then None else
  let d := Z.to_nat dist in
  let l := Z.to_nat len in
  if len <=? dist
  then match take_opt l (skipn (d - l) out) with Some seg => Some (seg ++ out) | None => None end
  else copy_slow (d - 1) l out.

(* ------------------------------------------------------------------ DEFLATE blocks *)
Definition sym_body (lt dt : tree) (out : list Z) : M (list Z + list Z) :=
  bind (decode_sym lt) (fun sym =>
  if sym <? 256 then ret (inl (sym :: out))
  else if sym =? 256 then ret (inr out)
  else match nth_error len_table (Z.to_nat (sym - 257)) with
       | None => fail
       | Some (base, extra) =>
           bind (getbits (Z.to_nat extra)) (fun eb =>
           bind (decode_sym dt) (fun dsym =>
           match nth_error dist_table (Z.to_nat dsym) with
           | None => fail
           | Some (dbase, dextra) =>
               bind (getbits (Z.to_nat dextra)) (fun db =>
               match copy (dbase + db) (base + eb) out with
               | None => fail
               | Some out' => ret (inl out')
               end)
           end))
       end).

Definition stored (out : list Z) : M (list Z) :=
  bind align (fun _ =>
  bind get16 (fun len =>
  bind get16 (fun nlen =>
  if len + nlen =? 65535 then getbytes (Z.to_nat len) out else fail))).

Fixpoint const_list (n : nat) (v : Z) : list Z :=
  match n with O => [] | S k => v :: const_list k v end.
Definition fixed_lit_lens : list Z :=
  const_list 144 8 ++ const_list 112 9 ++ const_list 24 7 ++ const_list 8 8.
Definition fixed_dist_lens : list Z := const_list 32 5.
Definition fixed_lt : tree := build_from all_lens (index_from 0 fixed_lit_lens) 0 Empty.
Definition fixed_dt : tree := build_from all_lens (index_from 0 fixed_dist_lens) 0 Empty.

Definition cl_order : list Z := [16;17;18;0;8;7;9;6;10;5;11;4;12;3;13;2;14;1;15].
Fixpoint assoc (k : Z) (l : list (Z * Z)) : Z :=
  match l with [] => 0 | (k', v) :: r => if k =? k' then v else assoc k r end.
Definition cl_lens (vals : list Z) : list Z :=
  let al := combine cl_order vals in
  map (fun i => assoc i al) [0;1;2;3;4;5;6;7;8;9;10;11;12;13;14;15;16;17;18].
Fixpoint push (n : nat) (v : Z) (acc : list Z) : list Z :=
  match n with O => acc | S k => push k v (v :: acc) end.

Definition cl_fin (total : Z) (acc : list Z) (n : Z) : M ((list Z * Z) + list Z) :=
  if n >? total then fail else if n =? total then ret (inr acc) else ret (inl (acc, n)).
Definition cl_body (clt : tree) (total : Z) (st : list Z * Z) : M ((list Z * Z) + list Z) :=
  let '(acc, n) := st in
  bind (decode_sym clt) (fun sym =>
  if sym <? 16 then cl_fin total (sym :: acc) (n + 1)
  else if sym =? 16 then
    match acc with
    | [] => fail
    | prev :: _ => bind (getbits 2) (fun r => cl_fin total (push (Z.to_nat (3 + r)) prev acc) (n + 3 + r))
    end
  else if sym =? 17 then
    bind (getbits 3) (fun r => cl_fin total (push (Z.to_nat (3 + r)) 0 acc) (n + 3 + r))
  else
    bind (getbits 7) (fun r => cl_fin total (push (Z.to_nat (11 + r)) 0 acc) (n + 11 + r))).

Definition dyn_header : M (tree * tree) :=
  bind (getbits 5) (fun hlit =>
  bind (getbits 5) (fun hdist =>
  bind (getbits 4) (fun hclen =>
  let nlen := hlit + 257 in
  let ndist := hdist + 1 in
  if (nlen >? 286) || (ndist >? 30) then fail else
  bind (rep (Z.to_nat (hclen + 4)) (getbits 3)) (fun vals =>
  match mk_tree false (cl_lens vals) with
  | None => fail
  | Some clt =>
      bind (run_loop (cl_body clt (nlen + ndist)) ([], 0)) (fun racc =>
      let lens := rev racc in
      let ll := firstn (Z.to_nat nlen) lens in
      let dl := skipn (Z.to_nat nlen) lens in
      if nth 256 ll 0 =? 0 then fail else
      match mk_tree true ll, mk_tree true dl with
      | Some lt, Some dt => ret (lt, dt)
      | _, _ => fail
      end)
  end)))).

Definition block_body (out : list Z) : M (list Z + list Z) :=
  bind getbit (fun fin =>
  bind (getbits 2) (fun ty =>
  bind (if ty =? 0 then stored out
        else if ty =? 1 then run_loop (sym_body fixed_lt fixed_dt) out
        else if ty =? 2 then bind dyn_header (fun '(lt, dt) => run_loop (sym_body lt dt) out)
        else fail)
       (fun out' => ret (if fin : bool then inr out' else inl out')))).

(* raw DEFLATE stream; result: the output REVERSED *)
Definition inflate_rev : M (list Z) := run_loop block_body [].

(* ------------------------------------------------------------------ CRC-32 *)
Fixpoint crc_round (n : nat) (c : Z) : Z :=
  match n with
  | O => c
  | S k => crc_round k (if Z.odd c then Z.lxor (Z.shiftr c 1) 3988292384 else Z.shiftr c 1)
  end.
Definition crc_byte (c b : Z) : Z := crc_round 8 (Z.lxor c b).
Definition crc32 (d : list Z) : Z :=
  (Z.lxor (fold_left crc_byte d 4294967295) 4294967295) mod 4294967296.

(* ------------------------------------------------------------------ gzip wrapper *)
Definition zstring_body (h : list Z) : M (list Z + list Z) :=
  bind getbyte (fun z => ret (if z =? 0 then inr (z :: h) else inl (z :: h))).

(* h: header bytes read so far, reversed (for FHCRC) *)
Definition gz_header : M unit :=
  bind getbyte (fun id1 => bind getbyte (fun id2 =>
  if negb ((id1 =? 31) && (id2 =? 139)) then fail else
  bind getbyte (fun cm => bind getbyte (fun flg =>
  if negb (cm =? 8) then fail else
  if negb (Z.land flg 224 =? 0) then fail else
  bind (getbytes 6 [flg; cm; id2; id1]) (fun h =>            (* MTIME(4) XFL OS *)
  bind (if Z.testbit flg 2
        then bind getbyte (fun x1 => bind getbyte (fun x2 =>
             getbytes (Z.to_nat (x1 + 256 * x2)) (x2 :: x1 :: h)))
        else ret h) (fun h =>
  bind (if Z.testbit flg 3 then run_loop zstring_body h else ret h) (fun h =>
  bind (if Z.testbit flg 4 then run_loop zstring_body h else ret h) (fun h =>
  if Z.testbit flg 1
  then bind get16 (fun c => if c =? (crc32 (rev h)) mod 65536 then ret tt else fail)
  else ret tt)))))))).

(* zlib compares the CRC as soon as its four bytes are there, then waits for ISIZE *)
Definition gunzip_m : M (list Z) :=
  bind gz_header (fun _ =>
  bind inflate_rev (fun out =>
  bind align (fun _ =>
  let data := rev' out in
  bind get32 (fun crc =>
  if negb (crc =? crc32 data) then fail else
  bind get32 (fun isize =>
  if isize =? Z.of_nat (length data) mod 4294967296 then ret data else fail))))).

Inductive result :=
| Done (data : list Z) (rest : list Z)
| NeedMore
| Bad
| OutOfFuel.

Definition gunzip (input : list Z) : result :=
  match gunzip_m ([], input) with
  | Ok d (_, rest) => Done d rest
  | More => NeedMore
  | Fail => Bad
  | Fuel => OutOfFuel
  end.

(* ------------------------------------------------------------------ encoder: stored blocks only *)
Definition le16 (v : Z) : list Z := [v mod 256; (v / 256) mod 256].
Definition le32 (v : Z) : list Z :=
  [v mod 256; (v / 256) mod 256; (v / 65536) mod 256; (v / 16777216) mod 256].
Definition stored_block (fin : bool) (c : list Z) : list Z :=
  let n := Z.of_nat (length c) in
  (if fin then 1 else 0) :: le16 n ++ le16 (65535 - n) ++ c.
Definition blk : nat := N.to_nat 65535.
Fixpoint stored_blocks (fuel : nat) (d : list Z) : list Z :=
  match fuel with
  | O => stored_block true d
  | S f => if Z.of_nat (length d) <=? 65535 then stored_block true d
           else stored_block false (firstn blk d) ++ stored_blocks f (skipn blk d)
  end.
Definition gz_fixed_header : list Z := [31; 139; 8; 0; 0; 0; 0; 0; 0; 255].
Definition gzip_stored (d : list Z) : list Z :=
  gz_fixed_header ++ stored_blocks (length d) d
  ++ le32 (crc32 d) ++ le32 (Z.of_nat (length d) mod 4294967296).

(* ------------------------------------------------------------------ helpers for tests *)
Fixpoint list_eqb (a b : list Z) : bool :=
  match a, b with
  | [], [] => true
  | x :: a', y :: b' => (x =? y) && list_eqb a' b'
  | _, _ => false
  end.
Definition result_eqb (a b : result) : bool :=
  match a, b with
  | Done d r, Done d' r' => list_eqb d d' && list_eqb r r'
  | NeedMore, NeedMore => true
  | Bad, Bad => true
  | OutOfFuel, OutOfFuel => true
  | _, _ => false
  end.
