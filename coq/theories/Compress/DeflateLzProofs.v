(* The model's decoder inverts the encoding of general LZ77 tokens in a fixed-Huffman block
   (DeflateLz.v): for every token list that is well formed against the output it produces,
     gunzip (gz_tokens2 ts d) = Done d []        d = the bytes the tokens stand for
   This covers all 29 length symbols and all 30 distance symbols with their extra bits, and both
   branches of the model's window copy (overlapping and not).  Corollary: the greedy compressor
   gzip_lz round-trips. *)
From Coq Require Import List ZArith NArith Bool Lia.
From RxVerif Require Import Compress.Inflate Compress.InflateProofs Compress.DeflateEnc
  Compress.DeflateEncProofs Compress.DeflateLz.
Import ListNotations.
Local Open Scope Z_scope.

(* ------------------------------------------------------------------ the model's copy = lz_copy *)
Lemma take_opt_firstn : forall n (L : list Z), (n <= length L)%nat -> take_opt n L = Some (firstn n L).
Proof.
  induction n as [|n IH]; intros L H; simpl.
  - reflexivity.
  - destruct L as [|x L]; simpl in H; [lia|]. rewrite IH by lia. reflexivity.
Qed.
Lemma firstn_S_nth : forall k (L : list Z), (k < length L)%nat ->
  firstn (S k) L = firstn k L ++ [nth k L 0].
Proof.
  induction k as [|k IH]; intros L H; destruct L as [|x L]; simpl in H; try lia.
  - reflexivity.
  - change (firstn (S (S k)) (x :: L)) with (x :: firstn (S k) L).
    rewrite IH by lia. reflexivity.
Qed.
Lemma nth_skipn : forall m k (L : list Z), nth k (skipn m L) 0 = nth (m + k) L 0.
Proof.
  induction m as [|m IH]; intros k L.
  - reflexivity.
  - destruct L as [|x L].
    + simpl. destruct k; reflexivity.
    + simpl. apply IH.
Qed.

(* the copied bytes do not overlap the bytes they produce *)
Lemma lz_copy_far : forall l d out, (l <= d)%nat -> (d <= length out)%nat ->
  lz_copy l (d - 1) out = firstn l (skipn (d - l) out) ++ out.
Proof.
  induction l as [|k IH]; intros d out Hl Hd.
  - reflexivity.
  - change (lz_copy (S k) (d - 1) out) with (lz_copy k (d - 1) (nth (d - 1) out 0 :: out)).
    rewrite IH by (simpl; lia).
    replace (d - k)%nat with (S (d - S k)) by lia.
    change (skipn (S (d - S k)) (nth (d - 1) out 0 :: out)) with (skipn (d - S k) out).
    rewrite firstn_S_nth by (rewrite skipn_length; lia).
    rewrite nth_skipn. replace (d - S k + k)%nat with (d - 1)%nat by lia.
    rewrite <- app_assoc. reflexivity.
Qed.
Lemma copy_slow_lz : forall n d1 out, (d1 < length out)%nat ->
  copy_slow d1 n out = Some (lz_copy n d1 out).
Proof.
  induction n as [|n IH]; intros d1 out H.
  - reflexivity.
  - change (copy_slow d1 (S n) out) with
      (match nth_error out d1 with None => None | Some b => copy_slow d1 n (b :: out) end).
    rewrite (nth_error_nth' out 0 H). apply IH. simpl. lia.
Qed.

Lemma copy_lz : forall dist len out, 1 <= dist -> (Z.to_nat dist <= length out)%nat -> 0 <= len ->
  copy dist len out = Some (lz_copy (Z.to_nat len) (Z.to_nat dist - 1) out).
Proof.
  intros dist len out Hd Ho Hl. unfold copy.
  replace (dist <=? 0) with false by (symmetry; apply Z.leb_gt; lia).
  destruct (len <=? dist) eqn:E.
  - apply Z.leb_le in E.
    assert (Hle : (Z.to_nat len <= Z.to_nat dist)%nat) by lia.
    rewrite take_opt_firstn by (rewrite skipn_length; lia).
    rewrite (lz_copy_far _ _ _ Hle Ho). reflexivity.
  - apply copy_slow_lz. lia.
Qed.

(* ------------------------------------------------------------------ one match, any trees *)
Section Match.
Variables lt dt : tree.
Lemma sym_match : forall lcode dcode sym base extra len dsym dbase dextra dist out out' tr s l,
  walk_sym lt lcode = Some sym -> (sym <? 256) = false -> (sym =? 256) = false ->
  nth_error len_table (Z.to_nat (sym - 257)) = Some (base, extra) ->
  0 <= extra -> 0 <= len - base < 2 ^ extra ->
  walk_sym dt dcode = Some dsym ->
  nth_error dist_table (Z.to_nat dsym) = Some (dbase, dextra) ->
  0 <= dextra -> 0 <= dist - dbase < 2 ^ dextra ->
  copy dist len out = Some out' ->
  R tr s (lcode ++ bits_lsb (Z.to_nat extra) (len - base) ++ dcode
          ++ bits_lsb (Z.to_nat dextra) (dist - dbase) ++ l) ->
  exists s', sym_body lt dt out s = Ok (inl out') s' /\ R tr s' l.
Proof.
  intros lcode dcode sym base extra len dsym dbase dextra dist out out' tr s l
         Hw Hs1 Hs2 Hn He Hr Hd Hdn Hde Hdr Hc HR.
  destruct (decode_sym_R _ _ _ _ _ _ Hw HR) as [s1 [H1 R1]].
  assert (Hr' : 0 <= len - base < 2 ^ Z.of_nat (Z.to_nat extra)) by (rewrite Z2Nat.id; assumption).
  destruct (getbits_R _ _ _ _ _ Hr' R1) as [s2 [H2 R2]].
  destruct (decode_sym_R _ _ _ _ _ _ Hd R2) as [s3 [H3 R3]].
  assert (Hdr' : 0 <= dist - dbase < 2 ^ Z.of_nat (Z.to_nat dextra)) by (rewrite Z2Nat.id; assumption).
  destruct (getbits_R _ _ _ _ _ Hdr' R3) as [s4 [H4 R4]].
  exists s4. split; [|exact R4].
  unfold sym_body. rewrite (bind_ok _ _ _ _ _ _ _ H1). rewrite Hs1, Hs2, Hn.
  rewrite (bind_ok _ _ _ _ _ _ _ H2). rewrite (bind_ok _ _ _ _ _ _ _ H3). rewrite Hdn.
  rewrite (bind_ok _ _ _ _ _ _ _ H4).
  replace (dbase + (dist - dbase)) with dist by lia.
  replace (base + (len - base)) with len by lia.
  rewrite Hc. reflexivity.
Qed.
End Match.

(* ------------------------------------------------------------------ the 30 distance symbols: finite check
   over all 32768 distances *)
Fixpoint zrange (s : Z) (n : nat) : list Z :=
  match n with O => [] | S k => s :: zrange (s + 1) k end.
Lemma in_zrange : forall n s x, s <= x < s + Z.of_nat n -> In x (zrange s n).
Proof.
  induction n as [|n IH]; intros s x H.
  - simpl in H. lia.
  - destruct (Z.eq_dec x s) as [E | E].
    + left. symmetry. exact E.
    + right. apply IH. lia.
Qed.

Definition dist_ok (dist : Z) : bool :=
  let '(j, dbase, dextra) := find_len dist_table 0 dist (0, 1, 0) in
  opt_eqb (walk_sym fixed_dt (bits_msb 5 j)) j
  && match nth_error dist_table (Z.to_nat j) with
     | Some (b', e') => (b' =? dbase) && (e' =? dextra)
     | None => false
     end
  && (0 <=? dextra) && (0 <=? dist - dbase) && (dist - dbase <? 2 ^ dextra).
Lemma all_dist_ok : forallb dist_ok (zrange 1 (N.to_nat 32768)) = true.
Proof. vm_compute. reflexivity. Qed.
Lemma dist_ok_dist : forall dist, 1 <= dist <= 32768 -> dist_ok dist = true.
Proof.
  intros dist H. pose proof all_dist_ok as A. rewrite forallb_forall in A. apply A.
  apply in_zrange. rewrite N_nat_Z. lia.
Qed.

(* ------------------------------------------------------------------ tokens *)
Definition tok_ok2 (out : list Z) (t : tok) : Prop :=
  match t with
  | TLit b => 0 <= b <= 255
  | TMatch len dist => 3 <= len <= 258 /\ 1 <= dist <= 32768 /\ dist <= Z.of_nat (length out)
  end.
Fixpoint toks_ok2 (out : list Z) (ts : list tok) : Prop :=
  match ts with
  | [] => True
  | t :: r => tok_ok2 out t /\ toks_ok2 (apply_tok2 out t) r
  end.

Lemma tok_step2 : forall t out tr s l, tok_ok2 out t -> R tr s (tok_code2 t ++ l) ->
  exists s', sym_body fixed_lt fixed_dt out s = Ok (inl (apply_tok2 out t)) s' /\ R tr s' l.
Proof.
  intros [b | len dist] out tr s l Hok HR; simpl in Hok.
  - apply sym_lit with (code := lit_code b).
    + apply lit_walk. exact Hok.
    + apply Z.ltb_lt. lia.
    + exact HR.
  - destruct Hok as [Hlen [Hdist Hout]].
    pose proof (run_ok_len len Hlen) as Hr. unfold run_ok in Hr.
    pose proof (dist_ok_dist dist Hdist) as Hq. unfold dist_ok in Hq.
    unfold tok_code2, match_code in HR.
    destruct (find_len len_table 0 len (0, 3, 0)) as [[i base] extra].
    destruct (find_len dist_table 0 dist (0, 1, 0)) as [[j dbase] dextra].
    repeat (apply andb_prop in Hr; let H := fresh "C" in destruct Hr as [Hr H]).
    destruct (nth_error len_table (Z.to_nat (257 + i - 257))) as [[b' e']|] eqn:En; [|discriminate].
    apply andb_prop in C2. destruct C2 as [Eb Ee]. apply Z.eqb_eq in Eb. apply Z.eqb_eq in Ee. subst b' e'.
    repeat (apply andb_prop in Hq; let H := fresh "D" in destruct Hq as [Hq H]).
    destruct (nth_error dist_table (Z.to_nat j)) as [[b' e']|] eqn:Ed; [|discriminate].
    apply andb_prop in D2. destruct D2 as [Eb Ee]. apply Z.eqb_eq in Eb. apply Z.eqb_eq in Ee. subst b' e'.
    rewrite <- !app_assoc in HR.
    apply sym_match with (lcode := sym_code (257 + i)) (dcode := bits_msb 5 j) (sym := 257 + i)
                         (base := base) (extra := extra) (len := len)
                         (dsym := j) (dbase := dbase) (dextra := dextra) (dist := dist).
    + apply opt_eqb_eq. exact Hr.
    + apply negb_true_iff. exact C4.
    + apply negb_true_iff. exact C3.
    + exact En.
    + apply Z.leb_le. exact C1.
    + split; [apply Z.leb_le; exact C0 | apply Z.ltb_lt; exact C].
    + apply opt_eqb_eq. exact Hq.
    + exact Ed.
    + apply Z.leb_le. exact D1.
    + split; [apply Z.leb_le; exact D0 | apply Z.ltb_lt; exact D].
    + apply copy_lz; lia.
    + exact HR.
Qed.

Lemma fixed_syms2 : forall ts out tr s l, toks_ok2 out ts ->
  R tr s (flat_map tok_code2 ts ++ eob_code ++ l) ->
  exists m s', loop (sym_body fixed_lt fixed_dt) m out s = Ok (fold_left apply_tok2 ts out) s'
               /\ R tr s' l.
Proof.
  induction ts as [|t ts IH]; intros out tr s l Hok HR.
  - simpl in HR. destruct (sym_eob fixed_lt fixed_dt _ out _ _ _ eob_walk HR) as [s1 [H1 R1]].
    exists 1%nat, s1. split; [|exact R1].
    rewrite loop_S. rewrite (bind_ok _ _ _ _ _ _ _ H1). reflexivity.
  - destruct Hok as [Ht Hts].
    change (flat_map tok_code2 (t :: ts)) with (tok_code2 t ++ flat_map tok_code2 ts) in HR.
    rewrite <- app_assoc in HR.
    destruct (tok_step2 _ _ _ _ _ Ht HR) as [s1 [H1 R1]].
    destruct (IH _ _ _ _ Hts R1) as [m [s2 [H2 R2]]].
    exists (S m), s2. split; [|exact R2].
    rewrite loop_S. rewrite (bind_ok _ _ _ _ _ _ _ H1). exact H2.
Qed.

Lemma fixed_block2 : forall ts out tr l, toks_ok2 out ts ->
  exists s', block_body out ([], pack (block_bits2 ts ++ l) ++ tr)
             = Ok (inr (fold_left apply_tok2 ts out)) s' /\ R tr s' l.
Proof.
  intros ts out tr l Hok.
  pose proof (R_init tr (block_bits2 ts ++ l)) as R0.
  unfold block_bits2 in R0 at 2.
  change (([true; true; false] ++ flat_map tok_code2 ts ++ eob_code) ++ l)
    with (true :: (bits_lsb 2 1 ++ (flat_map tok_code2 ts ++ eob_code) ++ l)) in R0.
  destruct (getbit_R _ _ _ _ R0) as [s1 [H1 R1]].
  assert (Hv : 0 <= 1 < 2 ^ Z.of_nat 2) by (change (2 ^ Z.of_nat 2) with 4; lia).
  destruct (getbits_R _ _ _ _ _ Hv R1) as [s2 [H2 R2]].
  rewrite <- app_assoc in R2.
  destruct (fixed_syms2 _ _ _ _ _ Hok R2) as [m [s3 [H3 R3]]].
  exists s3. split; [|exact R3].
  unfold block_body. rewrite (bind_ok _ _ _ _ _ _ _ H1). rewrite (bind_ok _ _ _ _ _ _ _ H2).
  change (1 =? 0) with false. change (1 =? 1) with true. cbv iota.
  assert (H4 : run_loop (sym_body fixed_lt fixed_dt) out s2 = Ok (fold_left apply_tok2 ts out) s3).
  { apply run_loop_any_fuel with (m := m).
    - intro a. apply wf_sym_body.
    - intro a. apply strict_sym_body.
    - exact H3.
    - discriminate. }
  rewrite (bind_ok _ _ _ _ _ _ _ H4). reflexivity.
Qed.

Theorem gunzip_gz_tokens2 : forall ts d, toks_ok2 [] ts -> lz_expand ts = d ->
  gunzip (gz_tokens2 ts d) = Done d [].
Proof.
  intros ts d Hok Hd. unfold lz_expand in Hd. unfold gunzip, gz_tokens2, gunzip_m.
  erewrite bind_ok by apply gz_header_fixed.
  set (tr := le32 (crc32 d) ++ le32 (Z.of_nat (length d) mod 4294967296)).
  destruct (fixed_block2 ts [] tr [] Hok) as [s1 [H1 R1]]. rewrite app_nil_r in H1.
  assert (H2 : inflate_rev ([], pack (block_bits2 ts) ++ tr) = Ok (fold_left apply_tok2 ts []) s1).
  { unfold inflate_rev. apply run_loop_any_fuel with (m := 1%nat).
    - apply wf_block_body.
    - apply strict_block_body.
    - rewrite loop_S. rewrite (bind_ok _ _ _ _ _ _ _ H1). reflexivity.
    - discriminate. }
  rewrite (bind_ok _ _ _ _ _ _ _ H2).
  rewrite (bind_ok _ _ align _ _ tt ([], snd s1)) by reflexivity.
  rewrite (R_nil _ _ R1). cbv zeta.
  rewrite Hd. unfold tr.
  erewrite bind_ok by (apply get32_le32; apply crc32_range).
  rewrite Z.eqb_refl. cbn [negb].
  rewrite <- (app_nil_r (le32 (Z.of_nat (length d) mod 4294967296))).
  erewrite bind_ok by (apply get32_le32; apply Z.mod_pos_bound; lia).
  rewrite Z.eqb_refl. reflexivity.
Qed.
Lemma lz_expand_rev : forall ts, lz_expand ts = rev (fold_left apply_tok2 ts []).
Proof. intros ts. unfold lz_expand, rev'. symmetry. apply rev_alt. Qed.
(* the same, with the payload computed from the tokens *)
Corollary gunzip_tokens2_expand : forall ts, toks_ok2 [] ts ->
  gunzip (gz_tokens2 ts (lz_expand ts)) = Done (lz_expand ts) [].
Proof. intros ts H. apply gunzip_gz_tokens2; [exact H | reflexivity]. Qed.

(* ------------------------------------------------------------------ the greedy compressor
   only the check `usable` matters for correctness, not how candidates are found *)
Lemma list_eqb_eq : forall a b, list_eqb a b = true -> a = b.
Proof.
  induction a as [|x a IH]; intros [|y b] H; simpl in H; try discriminate.
  - reflexivity.
  - apply andb_prop in H. destruct H as [H1 H2]. apply Z.eqb_eq in H1. apply IH in H2.
    subst. reflexivity.
Qed.
Lemma lz_copy_seg : forall n d1 out, exists seg, length seg = n /\ lz_copy n d1 out = seg ++ out.
Proof.
  induction n as [|n IH]; intros d1 out.
  - exists []. split; reflexivity.
  - destruct (IH d1 (nth d1 out 0 :: out)) as [seg [L E]].
    exists (seg ++ [nth d1 out 0]). split.
    + rewrite app_length. simpl. lia.
    + change (lz_copy (S n) d1 out) with (lz_copy n d1 (nth d1 out 0 :: out)).
      rewrite E, <- app_assoc. reflexivity.
Qed.
Lemma lz_copy_firstn : forall n d1 out, lz_copy n d1 out = firstn n (lz_copy n d1 out) ++ out.
Proof.
  intros n d1 out. destruct (lz_copy_seg n d1 out) as [seg [L E]]. rewrite E. subst n.
  rewrite firstn_app, Nat.sub_diag, firstn_O, app_nil_r, firstn_all. reflexivity.
Qed.

Lemma usable_spec : forall l d1 out rest, usable l d1 out rest = true ->
  tok_ok2 out (TMatch (Z.of_nat l) (Z.of_nat (S d1)))
  /\ apply_tok2 out (TMatch (Z.of_nat l) (Z.of_nat (S d1))) = lz_copy l d1 out
  /\ lz_copy l d1 out = rev (firstn l rest) ++ out
  /\ (1 <= l)%nat.
Proof.
  intros l d1 out rest U. unfold usable in U.
  repeat (apply andb_prop in U; let H := fresh "C" in destruct U as [U H]).
  apply Z.leb_le in U. apply Z.leb_le in C2. apply Z.leb_le in C1.
  destruct (nth_error out d1) as [x|] eqn:En; [|discriminate].
  assert (Hd : (d1 < length out)%nat) by (apply nth_error_Some; congruence).
  apply list_eqb_eq in C.
  split; [|split; [|split]].
  - simpl. lia.
  - unfold apply_tok2. rewrite !Nat2Z.id.
    replace (S d1 - 1)%nat with d1 by lia. reflexivity.
  - rewrite lz_copy_firstn. rewrite C. reflexivity.
  - lia.
Qed.

Lemma lz_go_spec : forall fuel w out rest, (length rest <= fuel)%nat -> bytes rest ->
  toks_ok2 out (lz_go fuel w out rest)
  /\ fold_left apply_tok2 (lz_go fuel w out rest) out = rev rest ++ out.
Proof.
  induction fuel as [|f IH]; intros w out rest Hl Hb.
  - destruct rest; simpl in Hl; [|lia]. split; [exact I | reflexivity].
  - destruct rest as [|b r]; [split; [exact I | reflexivity]|].
    change (lz_go (S f) w out (b :: r)) with
      (let '(l, d1) := best w O out (b :: r) O O in
       if usable l d1 out (b :: r)
       then TMatch (Z.of_nat l) (Z.of_nat (S d1))
            :: lz_go f w (lz_copy l d1 out) (skipn l (b :: r))
       else TLit b :: lz_go f w (b :: out) r).
    destruct (best w 0 out (b :: r) 0 0) as [l d1].
    destruct (usable l d1 out (b :: r)) eqn:U.
    + destruct (usable_spec _ _ _ _ U) as [Hok [Ha [Hc Hl1]]].
      assert (Hb' : bytes (skipn l (b :: r))).
      { unfold bytes in *. rewrite <- (firstn_skipn l (b :: r)) in Hb.
        apply Forall_app in Hb. apply Hb. }
      assert (Hl' : (length (skipn l (b :: r)) <= f)%nat).
      { rewrite skipn_length. cbn [length] in Hl |- *. lia. }
      destruct (IH w (lz_copy l d1 out) _ Hl' Hb') as [O1 E1]. split.
      * split; [exact Hok | rewrite Ha; exact O1].
      * change (fold_left apply_tok2 (TMatch (Z.of_nat l) (Z.of_nat (S d1))
                  :: lz_go f w (lz_copy l d1 out) (skipn l (b :: r))) out)
          with (fold_left apply_tok2 (lz_go f w (lz_copy l d1 out) (skipn l (b :: r)))
                  (apply_tok2 out (TMatch (Z.of_nat l) (Z.of_nat (S d1))))).
        rewrite Ha, E1, Hc. rewrite app_assoc, <- rev_app_distr, firstn_skipn. reflexivity.
    + inversion Hb as [|? ? Hb0 Hbr]; subst.
      assert (Hl' : (length r <= f)%nat) by (simpl in Hl; lia).
      destruct (IH w (b :: out) r Hl' Hbr) as [O1 E1]. split.
      * split; [exact Hb0 | exact O1].
      * change (fold_left apply_tok2 (TLit b :: lz_go f w (b :: out) r) out)
          with (fold_left apply_tok2 (lz_go f w (b :: out) r) (b :: out)).
        rewrite E1. simpl. rewrite <- app_assoc. reflexivity.
Qed.

Theorem gunzip_lz_roundtrip : forall w d, bytes d -> gunzip (gzip_lz w d) = Done d [].
Proof.
  intros w d Hb. unfold gzip_lz, lz_tokens.
  destruct (lz_go_spec (length d) w [] d (le_n _) Hb) as [O1 E1].
  apply gunzip_gz_tokens2.
  - exact O1.
  - unfold lz_expand. rewrite E1, app_nil_r. unfold rev'. rewrite <- rev_alt. apply rev_involutive.
Qed.

Corollary gz_tokens2_truncated : forall ts d p x, toks_ok2 [] ts -> lz_expand ts = d ->
  p ++ x = gz_tokens2 ts d -> x <> [] -> gunzip p = NeedMore.
Proof.
  intros ts d p x Hok Hd E Hx. apply gunzip_truncated_needmore with (x := x) (d := d); [|exact Hx].
  rewrite E. apply gunzip_gz_tokens2; assumption.
Qed.

(* ------------------------------------------------------------------ examples (the streams given to the real
   zlib by mirror3.py) *)
(* "A", then <length 3, distance 1> = "AAAA" *)
Example ex_tokens_tiny :
  gz_tokens2 [TLit 65; TMatch 3 1] (lz_expand [TLit 65; TMatch 3 1])
  = [31;139;8;0;0;0;0;0;0;255; 115;4;2;0; 241;8;13;155; 4;0;0;0].
Proof. vm_compute. reflexivity. Qed.
Example ex_expand_overlap : lz_expand [TLit 1; TLit 2; TLit 3; TMatch 7 3] = [1;2;3;1;2;3;1;2;3;1].
Proof. vm_compute. reflexivity. Qed.
Example ex_lz_tokens_abc :
  lz_tokens (N.to_nat 64) [97;98;99;97;98;99;97;98;99;97;98;99;100]
  = [TLit 97; TLit 98; TLit 99; TMatch 9 3; TLit 100].
Proof. vm_compute. reflexivity. Qed.
Example ex_gzip_lz_abc600 :
  gzip_lz (N.to_nat 64) (concat (repeat [97;98;99] (N.to_nat 200)))
  = [31;139;8;0;0;0;0;0;0;255; 75;76;74;30;69;163;136;234;8;0; 109;223;53;202; 88;2;0;0].
Proof. vm_compute. reflexivity. Qed.
Example ex_gzip_lz_run1000 :
  gzip_lz (N.to_nat 64) (repeat 170 (N.to_nat 1000))
  = [31;139;8;0;0;0;0;0;0;255; 91;53;10;70;193;40;24;246;0;0; 160;46;155;189; 232;3;0;0].
Proof. vm_compute. reflexivity. Qed.
(* a far match: 3 literals, 130 overlapping copies, then 100 bytes from 32768 back *)
Example ex_far_match :
  let ts := [TLit 1; TLit 2; TLit 3] ++ repeat (TMatch 258 3) (N.to_nat 130) ++ [TMatch 100 32768] in
  let d := lz_expand ts in
  (Z.of_nat (length d) =? 33643) && result_eqb (gunzip (gz_tokens2 ts d)) (Done d []) = true.
Proof. vm_compute. reflexivity. Qed.

Print Assumptions gunzip_gz_tokens2.
Print Assumptions gunzip_tokens2_expand.
Print Assumptions gunzip_lz_roundtrip.
Print Assumptions gz_tokens2_truncated.
