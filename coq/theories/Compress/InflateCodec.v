(* The codec laws H1-H3 of WrapperProofs.v (hypotheses of the C16 theorems) PROVED for a gzip codec
   built from the model of Inflate.v, and the C16 round-trip / truncation theorems instantiated
   with it (no hypotheses left).

   The codec objects:
   - encoder: buffers everything it is given, flush emits gzip_stored of the buffer (a valid gzip
     file made of stored blocks; checked against the real zlib by the mirror test);
   - decoder: buffers everything it is given; a call raises when gunzip of the buffer is Bad;
     eof = gunzip of the buffer is Done; flush hands out the data.
   Deviation from zlib's decompressobj: zlib hands out the data incrementally (in the results of
   decompress), this object hands it out in one piece at flush.  The wrapper theorems only speak
   about the concatenation of what is delivered and about Completed / Error, which do not see the
   difference. *)
From Coq Require Import List Arith ZArith NArith Bool Lia.
From RxVerif Require Import Compress.Wrapper Compress.WrapperProofs.
From RxVerif Require Import Compress.Inflate Compress.InflateProofs.
Import ListNotations.
Local Open Scope Z_scope.

Definition gz_cstep (buf c : list Z) : option (list Z * list Z) := Some (buf ++ c, []).
Definition gz_cflush (buf : list Z) : option (list Z) := Some (gzip_stored buf).

Definition gz_dstep (buf c : list Z) : option (list Z * list Z) :=
  match gunzip (buf ++ c) with
  | Bad => None
  | OutOfFuel => None
  | _ => Some (buf ++ c, [])
  end.
Definition gz_deof (buf : list Z) : bool :=
  match gunzip buf with Done _ _ => true | _ => false end.
Definition gz_dflush (buf : list Z) : option (list Z) :=
  match gunzip buf with Done d _ => Some d | _ => Some [] end.

Definition gz_enc_all : list (list Z) -> option (list Z) :=
  enc_all Z (list Z) [] gz_cstep gz_cflush.
Definition gz_dec_all : list (list Z) -> option (list Z * bool) :=
  dec_all Z (list Z) [] gz_dstep gz_deof gz_dflush.
Definition gz_compress : list (list Z) -> list (list (event (list Z))) :=
  compress (list Z) (list Z) (list Z) [] gz_cstep gz_cflush.
Definition gz_decompress (skip : bool) : list (list Z) -> list (list (event (list Z))) :=
  decompress (list Z) (list Z) (list Z) [] gz_dstep gz_deof gz_dflush b_empty skip.

Lemma concat_nils : forall (X : Type) (cs : list X), concat (map (fun _ => @nil Z) cs) = [].
Proof. induction cs; simpl; auto. Qed.

Lemma gz_crun : forall chunks buf,
  codec_run gz_cstep buf chunks = Some (buf ++ concat chunks, map (fun _ => []) chunks).
Proof.
  induction chunks as [|c cs IH]; intros buf; simpl.
  - rewrite app_nil_r. reflexivity.
  - rewrite IH. rewrite <- app_assoc. reflexivity.
Qed.
Lemma gz_enc_all_eq : forall chunks, gz_enc_all chunks = Some (gzip_stored (concat chunks)).
Proof.
  intros chunks. unfold gz_enc_all, enc_all. rewrite gz_crun. simpl.
  rewrite concat_nils. reflexivity.
Qed.

Lemma gz_drun : forall cs buf, gunzip (buf ++ concat cs) <> Bad ->
  codec_run gz_dstep buf cs = Some (buf ++ concat cs, map (fun _ => []) cs).
Proof.
  induction cs as [|c cs IH]; intros buf H; simpl.
  - rewrite app_nil_r. reflexivity.
  - simpl in H. rewrite app_assoc in H.
    assert (Hs : gz_dstep buf c = Some (buf ++ c, [])).
    { unfold gz_dstep. destruct (gunzip (buf ++ c)) as [d r | | |] eqn:E.
      - reflexivity.
      - reflexivity.
      - exfalso. apply H. apply gunzip_extend_bad. exact E.
      - exfalso. exact (gunzip_never_out_of_fuel _ E). }
    rewrite Hs. rewrite (IH _ H). rewrite <- app_assoc. reflexivity.
Qed.

(* what the decoder object reports depends on the concatenation of what it was fed *)
Definition gz_ref (w : list Z) : option (list Z * bool) :=
  match gunzip w with Done d _ => Some (d, true) | _ => Some ([], false) end.
Lemma gz_dec_all_ref : forall cs, gunzip (concat cs) <> Bad -> gz_dec_all cs = gz_ref (concat cs).
Proof.
  intros cs H. unfold gz_dec_all, dec_all. rewrite (gz_drun cs [] H). simpl.
  unfold gz_deof, gz_dflush, gz_ref. rewrite concat_nils.
  destruct (gunzip (concat cs)); reflexivity.
Qed.

Lemma prefix_not_bad : forall p suf d, gunzip (p ++ suf) = Done d [] -> gunzip p <> Bad.
Proof.
  intros p suf d H E. rewrite (gunzip_extend_bad p E suf) in H. discriminate.
Qed.

Theorem gz_H1 : forall skip chunks w cs1 cs2 suf,
  gz_enc_all chunks = Some w -> concat cs1 ++ suf = w -> concat cs2 = concat cs1 ->
  adm Z skip cs1 -> adm Z skip cs2 -> gz_dec_all cs1 = gz_dec_all cs2.
Proof.
  intros skip chunks w cs1 cs2 suf Hw Hc H12 _ _.
  rewrite gz_enc_all_eq in Hw. injection Hw as Hw.
  assert (Hd : gunzip (concat cs1 ++ suf) = Done (concat chunks) []).
  { rewrite Hc. rewrite <- Hw. apply gunzip_stored_roundtrip_any. }
  pose proof (prefix_not_bad _ _ _ Hd) as Hnb.
  rewrite (gz_dec_all_ref cs1 Hnb). rewrite <- H12 in Hnb. rewrite (gz_dec_all_ref cs2 Hnb).
  rewrite H12. reflexivity.
Qed.

Theorem gz_H2 : forall chunks,
  exists w, gz_enc_all chunks = Some w /\ gz_dec_all (canon w) = Some (concat chunks, true).
Proof.
  intros chunks. exists (gzip_stored (concat chunks)). split; [apply gz_enc_all_eq|].
  pose proof (gunzip_stored_roundtrip_any (concat chunks)) as Hd.
  rewrite gz_dec_all_ref.
  - rewrite canon_concat. unfold gz_ref. rewrite Hd. reflexivity.
  - rewrite canon_concat. rewrite Hd. discriminate.
Qed.

Theorem gz_H3 : forall chunks w pre suf,
  gz_enc_all chunks = Some w -> pre ++ suf = w -> suf <> [] ->
  forall o, gz_dec_all (canon pre) <> Some (o, true).
Proof.
  intros chunks w pre suf Hw Hc Hs o.
  rewrite gz_enc_all_eq in Hw. injection Hw as Hw.
  assert (Hn : gunzip pre = NeedMore).
  { apply gunzip_truncated_needmore with (x := suf) (d := concat chunks); [|exact Hs].
    rewrite Hc. rewrite <- Hw. apply gunzip_stored_roundtrip_any. }
  rewrite gz_dec_all_ref.
  - rewrite canon_concat. unfold gz_ref. rewrite Hn. discriminate.
  - rewrite canon_concat. rewrite Hn. discriminate.
Qed.

(* the C16 statements for the gzip codec, for both wrappers (skip = false: z.py; skip = true: a
   wrapper that does not hand empty chunks to the decoder) *)
Theorem gz_roundtrip_any_rechunking : forall (skip : bool) (chunks rechunk : list (list Z)),
  concat rechunk = payload (concat (gz_compress chunks)) ->
  In Completed (concat (gz_compress chunks)) /\
  payload (concat (gz_decompress skip rechunk)) = concat chunks /\
  In Completed (concat (gz_decompress skip rechunk)) /\
  ~ In Error (concat (gz_decompress skip rechunk)).
Proof.
  intros skip. unfold gz_compress, gz_decompress.
  apply roundtrip_any_rechunking.
  - exact (gz_H1 skip).
  - exact gz_H2.
Qed.

Theorem gz_truncation_is_error : forall (skip : bool) (chunks rechunk : list (list Z)) (suf : list Z),
  suf <> [] ->
  concat rechunk ++ suf = payload (concat (gz_compress chunks)) ->
  In Error (concat (gz_decompress skip rechunk)) /\
  ~ In Completed (concat (gz_decompress skip rechunk)).
Proof.
  intros skip. unfold gz_compress, gz_decompress.
  apply truncation_is_error.
  - exact (gz_H1 skip).
  - exact gz_H2.
  - exact gz_H3.
Qed.

(* the compressed stream is a gzip file that the model accepts: standalone validity *)
Theorem gz_compress_payload_valid : forall chunks,
  gunzip (payload (concat (gz_compress chunks))) = Done (concat chunks) [].
Proof.
  intros chunks. unfold gz_compress.
  destruct (compress_payload Z (list Z) [] gz_cstep gz_cflush chunks _ (gz_enc_all_eq chunks))
    as [E _].
  rewrite E. apply gunzip_stored_roundtrip_any.
Qed.

Print Assumptions gz_H1.
Print Assumptions gz_H2.
Print Assumptions gz_H3.
Print Assumptions gz_roundtrip_any_rechunking.
Print Assumptions gz_truncation_is_error.
Print Assumptions gz_compress_payload_valid.
