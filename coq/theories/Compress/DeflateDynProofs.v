(* The model's decoder inverts the dynamic-Huffman encoder of DeflateDyn.v:
     gunzip (gzip_dynamic d) = Done d []
   The block header of gzip_dynamic is a constant of exactly 32 bytes.  The model's header parser
   (dyn_header: HLIT/HDIST/HCLEN, code-length code, repeat code 16, Kraft checks, canonical trees)
   is RUN on it (vm_compute), and the result is carried over to the state with the data behind it
   by the monotonicity of dyn_header (wf_dyn_header).  The data part is then decoded symbol by
   symbol along the trees the parser built. *)
From Coq Require Import List ZArith NArith Bool Lia.
From RxVerif Require Import Compress.Inflate Compress.InflateProofs Compress.DeflateEnc
  Compress.DeflateEncProofs Compress.DeflateDyn.
Import ListNotations.
Local Open Scope Z_scope.

Example dyn_hdr_256_bits : length dyn_hdr_bits = N.to_nat 256.
Proof. vm_compute. reflexivity. Qed.

(* the header bytes, the state in which block_body hands over to dyn_header (three bits of the
   first byte are read), and the trees the model builds *)
Definition dyn_hdr_bytes : list Z := Eval vm_compute in pack dyn_hdr_bits.
Definition dyn_lt : tree :=
  Eval vm_compute in match mk_tree true dyn_lit_lens with Some t => t | None => Empty end.
Definition dyn_dt : tree :=
  Eval vm_compute in match mk_tree true dyn_dist_lens with Some t => t | None => Empty end.

Lemma dyn_hdr_bytes_eq : pack dyn_hdr_bits = dyn_hdr_bytes.
Proof. vm_compute. reflexivity. Qed.

(* the model's parser on the header alone: it consumes it exactly and builds the two trees *)
Lemma dyn_header_run :
  dyn_header ([true; false; false; false; false], tl dyn_hdr_bytes) = Ok (dyn_lt, dyn_dt) ([], []).
Proof. vm_compute. reflexivity. Qed.

Lemma dyn_header_ext : forall x,
  dyn_header ([true; false; false; false; false], tl dyn_hdr_bytes ++ x) = Ok (dyn_lt, dyn_dt) ([], x).
Proof.
  intros x.
  destruct (proj1 wf_dyn_header ([true; false; false; false; false], tl dyn_hdr_bytes) x) as [H | H].
  - rewrite dyn_header_run in H. discriminate.
  - rewrite dyn_header_run in H. exact H.
Qed.

Lemma dyn_block_start : forall out x,
  block_body out ([], dyn_hdr_bytes ++ x)
  = bind (run_loop (sym_body dyn_lt dyn_dt) out) (fun out' => ret (inr out')) ([], x).
Proof.
  intros out x. unfold block_body.
  change (dyn_hdr_bytes ++ x) with (hd 0 dyn_hdr_bytes :: (tl dyn_hdr_bytes ++ x)).
  rewrite (bind_ok _ _ getbit _ _ true
             ([false; true; true; false; false; false; false], tl dyn_hdr_bytes ++ x)) by reflexivity.
  rewrite (bind_ok _ _ (getbits 2) _ _ 2
             ([true; false; false; false; false], tl dyn_hdr_bytes ++ x)) by reflexivity.
  change (2 =? 0) with false. change (2 =? 1) with false. change (2 =? 2) with true. cbv iota.
  unfold bind at 1. unfold bind at 1. rewrite dyn_header_ext. reflexivity.
Qed.

(* the codes the encoder uses lead to their symbols in the tree the model built *)
Definition dyn_lit_ok (b : Z) : bool := opt_eqb (walk_sym dyn_lt (dyn_lit_code b)) b.
Lemma all_dyn_lit_ok : forallb dyn_lit_ok (map Z.of_nat (seq 0 256)) = true.
Proof. vm_compute. reflexivity. Qed.
Lemma dyn_lit_walk : forall b, 0 <= b <= 255 -> walk_sym dyn_lt (dyn_lit_code b) = Some b.
Proof.
  intros b H. apply opt_eqb_eq.
  pose proof all_dyn_lit_ok as A. rewrite forallb_forall in A. apply A.
  rewrite <- (Z2Nat.id b) by lia. apply in_map. apply in_seq. lia.
Qed.
Lemma dyn_eob_walk : walk_sym dyn_lt dyn_eob_code = Some 256.
Proof. vm_compute. reflexivity. Qed.

Lemma dyn_syms : forall d out tr s l, bytes d ->
  R tr s (flat_map dyn_lit_code d ++ dyn_eob_code ++ l) ->
  exists m s', loop (sym_body dyn_lt dyn_dt) m out s = Ok (rev d ++ out) s' /\ R tr s' l.
Proof.
  induction d as [|b d IH]; intros out tr s l Hb HR.
  - simpl in HR. destruct (sym_eob dyn_lt dyn_dt _ out _ _ _ dyn_eob_walk HR) as [s1 [H1 R1]].
    exists 1%nat, s1. split; [|exact R1].
    rewrite loop_S. rewrite (bind_ok _ _ _ _ _ _ _ H1). reflexivity.
  - inversion Hb as [|? ? Hb0 Hbd]; subst.
    change (flat_map dyn_lit_code (b :: d)) with (dyn_lit_code b ++ flat_map dyn_lit_code d) in HR.
    rewrite <- app_assoc in HR.
    assert (Hlt : (b <? 256) = true) by (apply Z.ltb_lt; lia).
    destruct (sym_lit dyn_lt dyn_dt _ b out _ _ _ (dyn_lit_walk b Hb0) Hlt HR) as [s1 [H1 R1]].
    destruct (IH (b :: out) _ _ _ Hbd R1) as [m [s2 [H2 R2]]].
    exists (S m), s2. split; [|exact R2].
    rewrite loop_S. rewrite (bind_ok _ _ _ _ _ _ _ H1).
    simpl rev. rewrite <- app_assoc. exact H2.
Qed.

Theorem gunzip_dynamic_roundtrip : forall d, bytes d -> gunzip (gzip_dynamic d) = Done d [].
Proof.
  intros d Hb. unfold gunzip, gzip_dynamic, gunzip_m.
  erewrite bind_ok by apply gz_header_fixed.
  rewrite dyn_hdr_bytes_eq.
  set (tr := le32 (crc32 d) ++ le32 (Z.of_nat (length d) mod 4294967296)).
  pose proof (R_init tr (dyn_data_bits d)) as R0. unfold dyn_data_bits in R0 at 2.
  rewrite <- (app_nil_r dyn_eob_code) in R0.
  destruct (dyn_syms d [] tr _ [] Hb R0) as [m [s1 [H1 R1]]]. rewrite app_nil_r in H1.
  assert (H2 : inflate_rev ([], dyn_hdr_bytes ++ pack (dyn_data_bits d) ++ tr) = Ok (rev d) s1).
  { unfold inflate_rev. apply run_loop_any_fuel with (m := 1%nat).
    - apply wf_block_body.
    - apply strict_block_body.
    - rewrite loop_S.
      assert (H3 : run_loop (sym_body dyn_lt dyn_dt) [] ([], pack (dyn_data_bits d) ++ tr)
                   = Ok (rev d) s1).
      { apply run_loop_any_fuel with (m := m).
        - intro a. apply wf_sym_body.
        - intro a. apply strict_sym_body.
        - exact H1.
        - discriminate. }
      assert (H4 : block_body [] ([], dyn_hdr_bytes ++ pack (dyn_data_bits d) ++ tr)
                   = Ok (inr (rev d)) s1).
      { rewrite dyn_block_start. rewrite (bind_ok _ _ _ _ _ _ _ H3). reflexivity. }
      rewrite (bind_ok _ _ _ _ _ _ _ H4). reflexivity.
    - discriminate. }
  rewrite (bind_ok _ _ _ _ _ _ _ H2).
  rewrite (bind_ok _ _ align _ _ tt ([], snd s1)) by reflexivity.
  rewrite (R_nil _ _ R1). cbv zeta.
  assert (Rv : rev' (rev d) = d) by (unfold rev'; rewrite <- rev_alt; apply rev_involutive).
  rewrite Rv. unfold tr.
  erewrite bind_ok by (apply get32_le32; apply crc32_range).
  rewrite Z.eqb_refl. cbn [negb].
  rewrite <- (app_nil_r (le32 (Z.of_nat (length d) mod 4294967296))).
  erewrite bind_ok by (apply get32_le32; apply Z.mod_pos_bound; lia).
  rewrite Z.eqb_refl. reflexivity.
Qed.

Corollary gzip_dynamic_truncated : forall d p x, bytes d -> p ++ x = gzip_dynamic d -> x <> [] ->
  gunzip p = NeedMore.
Proof.
  intros d p x H E Hx. apply gunzip_truncated_needmore with (x := x) (d := d); [|exact Hx].
  rewrite E. apply gunzip_dynamic_roundtrip. exact H.
Qed.

(* what the parser sees in the header: the three counts and the code lengths it reconstructs *)
Example dyn_header_counts :
  bind (getbits 5) (fun hlit => bind (getbits 5) (fun hdist => bind (getbits 4) (fun hclen =>
    ret (hlit, hdist, hclen)))) ([true; false; false; false; false], tl dyn_hdr_bytes)
  = Ok (1, 1, 15) ([false; true; false; false; false; false; false], skipn 2 (tl dyn_hdr_bytes)).
Proof. vm_compute. reflexivity. Qed.
Example dyn_trees_from_lens :
  mk_tree true dyn_lit_lens = Some dyn_lt /\ mk_tree true dyn_dist_lens = Some dyn_dt.
Proof. split; vm_compute; reflexivity. Qed.

(* byte for byte the streams given to the real zlib by mirror3.py *)
Example ex_gzip_dynamic_empty :
  gzip_dynamic [] =
  [31;139;8;0;0;0;0;0;0;255;
   13;225;5;64;16;0;0;0;32;248;255;255;255;255;255;255;255;255;255;255;255;255;255;255;255;255;
   255;255;255;255;111;3; 255;0; 0;0;0;0; 0;0;0;0].
Proof. vm_compute. reflexivity. Qed.
Example ex_gzip_dynamic_one :
  gzip_dynamic [42] =
  [31;139;8;0;0;0;0;0;0;255;
   13;225;5;64;16;0;0;0;32;248;255;255;255;255;255;255;255;255;255;255;255;255;255;255;255;255;
   255;255;255;255;111;3; 84;255;0; 91;38;185;9; 1;0;0;0].
Proof. vm_compute. reflexivity. Qed.
Example ex_gzip_dynamic_high :
  gzip_dynamic [253;254;255;254;253;0;255] =
  [31;139;8;0;0;0;0;0;0;255;
   13;225;5;64;16;0;0;0;32;248;255;255;255;255;255;255;255;255;255;255;255;255;255;255;255;255;
   255;255;255;255;111;3; 191;127;254;254;249;5;248;251;15; 24;85;158;139; 7;0;0;0].
Proof. vm_compute. reflexivity. Qed.

Print Assumptions gunzip_dynamic_roundtrip.
Print Assumptions gzip_dynamic_truncated.
