(* An encoder that writes ONE final DEFLATE block of type 10 (dynamic Huffman codes) with a fixed,
   hand-chosen, complete code, every byte as a literal.  Executable; no proofs in this file.

   literal/length code lengths (HLIT = 1: 258 symbols): 0..253 -> 8 bits, 254..257 -> 9 bits
        (254/256 + 4/512 = 1: complete); canonical codes: b -> b on 8 bits for b <= 253,
        254.. -> 508.. on 9 bits (so end of block, 256, is 510)
   distance code lengths (HDIST = 1: 2 symbols): 1, 1 (complete; never used)
   code-length alphabet: the symbols 1, 8, 9, 16 with 2 bits each (complete); canonical codes
        1 -> 00, 8 -> 01, 9 -> 10, 16 -> 11; HCLEN = 15 (all 19 entries written, in the order
        16,17,18,0,8,7,9,6,10,5,11,4,12,3,13,2,14,1,15)
   the 260 code lengths are written as: 8, 42 x (16: repeat previous 6 times), 8, 9,
        (16: repeat previous 3 times), 1, 1
   With these choices the block header (BFINAL, BTYPE, HLIT, HDIST, HCLEN, the 19 x 3 bits, the
   coded lengths) is exactly 256 bits = 32 bytes, so the data bits start on a byte boundary. *)
From Coq Require Import List ZArith NArith Bool Lia.
From RxVerif Require Import Compress.Inflate Compress.DeflateEnc.
Import ListNotations.
Local Open Scope Z_scope.

Definition dyn_lit_lens : list Z := const_list 254 8 ++ const_list 4 9.
Definition dyn_dist_lens : list Z := [1; 1].

Definition cl_sym_code (s : Z) : list bool :=
  bits_msb 2 (if s =? 1 then 0 else if s =? 8 then 1 else if s =? 9 then 2 else 3).
(* lengths of the code-length code, in the order of RFC 1951 3.2.7 *)
Definition dyn_hclen_vals : list Z := [2;0;0;0;2;0;2;0;0;0;0;0;0;0;0;0;0;2;0].
(* symbol 16: copy the previous length 3 + (2 extra bits) times *)
Definition cl_repeat (n : Z) : list bool := cl_sym_code 16 ++ bits_lsb 2 (n - 3).
Definition dyn_cl_stream : list bool :=
  cl_sym_code 8 ++ concat (repeat (cl_repeat 6) 42) ++ cl_sym_code 8
  ++ cl_sym_code 9 ++ cl_repeat 3 ++ cl_sym_code 1 ++ cl_sym_code 1.

(* BFINAL = 1, BTYPE = 10 (least significant bit first), HLIT = 1, HDIST = 1, HCLEN = 15 *)
Definition dyn_hdr_bits : list bool :=
  [true; false; true] ++ bits_lsb 5 1 ++ bits_lsb 5 1 ++ bits_lsb 4 15
  ++ flat_map (bits_lsb 3) dyn_hclen_vals ++ dyn_cl_stream.

Definition dyn_lit_code (b : Z) : list bool :=
  if b <? 254 then bits_msb 8 b else bits_msb 9 (508 + (b - 254)).
Definition dyn_eob_code : list bool := bits_msb 9 510.
Definition dyn_data_bits (d : list Z) : list bool := flat_map dyn_lit_code d ++ dyn_eob_code.

(* the header is a whole number of bytes (32), so it is packed on its own *)
Definition gzip_dynamic (d : list Z) : list Z :=
  gz_fixed_header ++ pack dyn_hdr_bits ++ pack (dyn_data_bits d)
  ++ le32 (crc32 d) ++ le32 (Z.of_nat (length d) mod 4294967296).
