#!/bin/bash
# Full (.vo) build of the Coq development; never -vos/-vok.  Usage: build.sh [target.vo | models | clean]
cd "$(dirname "$0")" || exit 2
mkdir -p ../work; exec 9>../work/.build.flock; flock 9
{ echo "-Q theories RxVerif"; echo "-Q props RxProps"; find theories props -name '*.v' | LC_ALL=C sort; } > _CoqProject.new
if cmp -s _CoqProject.new _CoqProject; then rm -f _CoqProject.new; else mv _CoqProject.new _CoqProject; fi
if [ ! -f Makefile ] || [ _CoqProject -nt Makefile ]; then coq_makefile -f _CoqProject -o Makefile >/dev/null || exit 2; fi
case "$1" in
  clean) make clean >/dev/null 2>&1; exit 0 ;;
  "") exec timeout 3000 make -j16 ;;
  models) exec timeout 3000 make -j16 $(find theories -name '*.v' ! -name '*Proofs.v' | sed 's/\.v$/.vo/') ;;
  *) exec timeout 3000 make -j16 "$@" ;;
esac
