(* C03 - the mux event protocol is well-formed at operator boundaries.
   wf t : every Create k finds no live key with the same slot index, every Next/Done k finds k live.
   The theorem covers the output of EVERY pipeline of the grammar; since every prefix of a pipeline
   is itself a pipeline, it covers every boundary between two operators of a (possibly nested) flat
   pipeline.  The protocol of the traces that group_by / roll / split / time_split feed to their
   inner pipelines is a proof obligation discharged inside group_refines / roll_refines /
   seg_refines (lemmas allowed_dones, allowed_batches, acts_allowed), without which
   C02_master_refinement would not hold; it is not restated here. *)
From Coq Require Import List ZArith.
From RxVerif Require Import Mux.Val Mux.Sim Mux.SimExt Mux.Ops Mux.Syntax Mux.ConfineProofs Mux.MasterProofs.
Import ListNotations.

Theorem C03_output_protocol : forall (P : list op) (t : list iev), wf t ->
  wf (concat (raw_run P t)) /\ after_seq [] (concat (raw_run P t)) = after_seq [] t.
Proof. exact pipe_output_wf. Qed.
Print Assumptions C03_output_protocol.

(* when the input has completed every key it created, so has the output *)
Corollary C03_closed_at_completion : forall (P : list op) (t : list iev), wf t -> after_seq [] t = [] ->
  after_seq [] (concat (raw_run P t)) = [].
Proof. intros P t Ht Hc. rewrite (proj2 (pipe_output_wf P t Ht)). exact Hc. Qed.
Print Assumptions C03_closed_at_completion.

Example C03_example :
  concat (raw_run [OGroup (FMod 2) [OScan A2Count (VInt 0) TInt true None]]
            [Create [4]; Next [4] (It (VInt 1)); Next [4] (It (VInt 2)); Next [4] (It (VInt 3)); Done [4]]%nat)
  = [Create [4]; Next [4] (It (VInt 2)); Next [4] (It (VInt 1)); Done [4]]%nat.
Proof. vm_compute. reflexivity. Qed.
