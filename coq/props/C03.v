(* C03 - the mux event protocol is well-formed at operator boundaries.
   wf t : every Create k finds no live key with the same slot index, every Next/Done k finds k live.
   The theorem covers the output of EVERY pipeline of the grammar; since every prefix of a pipeline
   is itself a pipeline, it covers every boundary between two operators of a (possibly nested) flat
   pipeline.  C03_inner_* : the trace that group_by, split, time_split and roll (window = stride) feed
   to their inner pipeline is well-formed whenever the outer trace is (stated on the heads alone, for
   any inner pipeline); for the sliding roll (window <> stride) the same fact is discharged inside
   roll_refines (allowed_batches, ring_free) and not restated. *)
From Coq Require Import List ZArith.
From RxVerif Require Import Mux.Val Mux.Sim Mux.SimExt Mux.Seg Mux.Ops Mux.Syntax Mux.ConfineProofs Mux.MasterProofs Mux.InnerProtocolProofs.
Import ListNotations.

Theorem C03_output_protocol : forall (P : list op) (t : list iev), wf t ->
  wf (concat (raw_run P t)) /\ after_seq [] (concat (raw_run P t)) = after_seq [] t.
Proof. exact pipe_output_wf. Qed.
Print Assumptions C03_output_protocol.

(* when the input has completed every key it created, so has the output *)
Corollary C03_closed_at_completion : forall (P : list op) (t : list iev), wf t -> after_seq [] t = [] ->
  after_seq [] (concat (raw_run P t)) = [].
Proof. intros P t Ht Hc. rewrite (proj2 (pipe_output_wf P t Ht)). exact Hc. Qed.
Print Assumptions C03_closed_at_completion.

(* heads: what is fed to the inner pipeline is a well-formed trace (no Create on a live slot, items and
   completions only for live inner keys), for EVERY well-formed outer trace *)
Theorem C03_inner_segment_heads : forall (V Sg : Type) (sg0 : Sg) (sg_next : Sg -> V -> Sg * list (act V)) (sg_open : Sg -> bool),
  sg_open sg0 = false ->
  (forall s x, acts_ok V (sg_open s) (snd (sg_next s x)) = Some (sg_open (fst (sg_next s x)))) ->
  forall t, allowed_seq [] t -> allowed_seq [] (inner_trace V Sg sg0 sg_next sg_open [] t).
Proof. exact seg_inner_wf0. Qed.
Print Assumptions C03_inner_segment_heads.
Theorem C03_inner_segment_heads_feed : forall (V Sg : Type) (sg0 : Sg) (sg_next : Sg -> V -> Sg * list (act V)) (sg_open : Sg -> bool)
  (I : machine V) slots si e,
  fst (step (seg_m V Sg sg0 sg_next sg_open I) (slots, si) e)
  = (seg_slots V Sg sg0 sg_next slots e, fst (feed I si (seg_feed V Sg sg0 sg_next sg_open slots e))).
Proof. exact seg_m_feeds. Qed.
Print Assumptions C03_inner_segment_heads_feed.
Theorem C03_inner_group_by : forall (V G : Type) (geq : forall a b : G, {a = b} + {a <> b}) (km : V -> G) t,
  allowed_seq [] t -> allowed_seq [] (group_inner_trace V G geq km ([], 0) t).
Proof. exact group_inner_wf0. Qed.
Print Assumptions C03_inner_group_by.
Theorem C03_inner_group_by_feed : forall (V G : Type) (geq : forall a b : G, {a = b} + {a <> b}) (km : V -> G) (I : machine V) st si e,
  fst (step (group_m V G geq km I) (st, si) e) = (group_next V G geq km st e, fst (feed I si (group_feed V G geq km st e))).
Proof. exact group_m_feeds. Qed.
Print Assumptions C03_inner_group_by_feed.

Example C03_example :
  concat (raw_run [OGroup (FMod 2) [OScan A2Count (VInt 0) TInt true None]]
            [Create [4]; Next [4] (It (VInt 1)); Next [4] (It (VInt 2)); Next [4] (It (VInt 3)); Done [4]]%nat)
  = [Create [4]; Next [4] (It (VInt 2)); Next [4] (It (VInt 1)); Done [4]]%nat.
Proof. vm_compute. reflexivity. Qed.
