(* C03 - the mux event protocol is well-formed at operator boundaries.
   wf t : every Create k finds no live key with the same slot index, every Next/Done k finds k live.
   The theorem covers the output of EVERY pipeline of the grammar; since every prefix of a pipeline
   is itself a pipeline, it covers every boundary between two operators of a (possibly nested) flat
   pipeline.  C03_inner_* : the trace that group_by, split, time_split and roll (window = stride) feed
   to their inner pipeline is well-formed whenever the outer trace is (stated on the heads alone, for
   any inner pipeline); C03_inner_sliding_roll : the same for the sliding roll (window <> stride), proved by
   instantiating the inner machine with a protocol monitor and reading its verdict out of roll_refines.
   C03_every_boundary : all of it together - the trace at EVERY boundary of EVERY pipeline (after each
   operator, at the head of each inner pipeline and tee branch, to any nesting depth), as computed by
   Boundaries.bnd_pipe, is well-formed.  bnd_pipe is compared boundary by boundary with the recording
   taps of the real code by the correspondence check (MCBnd). *)
From Coq Require Import List ZArith.
From RxVerif Require Import Mux.Val Mux.Sim Mux.SimExt Mux.Seg Mux.Ops Mux.Syntax Mux.ConfineProofs Mux.MasterProofs Mux.InnerProtocolProofs Mux.Boundaries Mux.BoundaryProofs Mux.MuxCorr.
Import ListNotations.

Theorem C03_output_protocol : forall (P : list op) (t : list iev), wf t ->
  wf (concat (raw_run P t)) /\ after_seq [] (concat (raw_run P t)) = after_seq [] t.
Proof. exact pipe_output_wf. Qed.
Print Assumptions C03_output_protocol.

(* when the input has completed every key it created, so has the output *)
Corollary C03_closed_at_completion : forall (P : list op) (t : list iev), wf t -> after_seq [] t = [] ->
  after_seq [] (concat (raw_run P t)) = [].
Proof. intros P t Ht Hc. rewrite (proj2 (pipe_output_wf P t Ht)). exact Hc. Qed.
Print Assumptions C03_closed_at_completion.

(* heads: what is fed to the inner pipeline is a well-formed trace (no Create on a live slot, items and
   completions only for live inner keys), for EVERY well-formed outer trace *)
Theorem C03_inner_segment_heads : forall (V Sg : Type) (sg0 : Sg) (sg_next : Sg -> V -> Sg * list (act V)) (sg_open : Sg -> bool),
  sg_open sg0 = false ->
  (forall s x, acts_ok V (sg_open s) (snd (sg_next s x)) = Some (sg_open (fst (sg_next s x)))) ->
  forall t, allowed_seq [] t -> allowed_seq [] (inner_trace V Sg sg0 sg_next sg_open [] t).
Proof. exact seg_inner_wf0. Qed.
Print Assumptions C03_inner_segment_heads.
Theorem C03_inner_segment_heads_feed : forall (V Sg : Type) (sg0 : Sg) (sg_next : Sg -> V -> Sg * list (act V)) (sg_open : Sg -> bool)
  (I : machine V) slots si e,
  fst (step (seg_m V Sg sg0 sg_next sg_open I) (slots, si) e)
  = (seg_slots V Sg sg0 sg_next slots e, fst (feed I si (seg_feed V Sg sg0 sg_next sg_open slots e))).
Proof. exact seg_m_feeds. Qed.
Print Assumptions C03_inner_segment_heads_feed.
Theorem C03_inner_group_by : forall (V G : Type) (geq : forall a b : G, {a = b} + {a <> b}) (km : V -> G) t,
  allowed_seq [] t -> allowed_seq [] (group_inner_trace V G geq km ([], 0) t).
Proof. exact group_inner_wf0. Qed.
Print Assumptions C03_inner_group_by.
Theorem C03_inner_group_by_feed : forall (V G : Type) (geq : forall a b : G, {a = b} + {a <> b}) (km : V -> G) (I : machine V) st si e,
  fst (step (group_m V G geq km I) (st, si) e) = (group_next V G geq km st e, fst (feed I si (group_feed V G geq km st e))).
Proof. exact group_m_feeds. Qed.
Print Assumptions C03_inner_group_by_feed.

Theorem C03_inner_sliding_roll : forall (V : Type) (w s d : nat), 1 <= s -> w <= d * s -> 1 <= d -> 1 <= w ->
  forall t : list (ev V), allowed_seq [] t -> allowed_seq [] (roll_inner_trace V w s d ([], []) t).
Proof. exact roll_inner_wf. Qed.
Print Assumptions C03_inner_sliding_roll.
Theorem C03_inner_sliding_roll_feed : forall (V : Type) (w s d : nat) (I : machine V) st si e,
  fst (step (roll_m V I w s d) (st, si) e) = (roll_next V w s d st e, fst (feed I si (roll_feed V w s d st e))).
Proof. exact roll_m_feeds. Qed.
Print Assumptions C03_inner_sliding_roll_feed.

(* end to end: after ANY outer trace the inner machine inside the composite head is in exactly the state it
   reaches when run alone on the head's inner trace (the boundary trace bnd_pipe reports and the taps record);
   special items never reach a machine under a bypass *)
Theorem C03_inner_state_segment_heads : forall (V Sg : Type) (sg0 : Sg) (nx : Sg -> V -> Sg * list (act V)) (op_ : Sg -> bool)
  (I : machine V) t slots si,
  snd (fst (feed (seg_m V Sg sg0 nx op_ I) (slots, si) t)) = fst (feed I si (inner_trace V Sg sg0 nx op_ slots t)).
Proof. exact seg_run_feeds. Qed.
Print Assumptions C03_inner_state_segment_heads.
Theorem C03_inner_state_group_by : forall (V G : Type) (geq : forall a b : G, {a = b} + {a <> b}) (km : V -> G) (I : machine V) t st si,
  snd (fst (feed (group_m V G geq km I) (st, si) t)) = fst (feed I si (group_inner_trace V G geq km st t)).
Proof. exact group_run_feeds. Qed.
Print Assumptions C03_inner_state_group_by.
Theorem C03_inner_state_sliding_roll : forall (V : Type) (w s d : nat) (I : machine V) t st si,
  snd (fst (feed (roll_m V I w s d) (st, si) t)) = fst (feed I si (roll_inner_trace V w s d st t)).
Proof. exact roll_chk_run. Qed.
Print Assumptions C03_inner_state_sliding_roll.
Theorem C03_bypass_plain : forall (M : machine item) t s0,
  fst (feed (bypass_m item special M) s0 t) = fst (feed M s0 (plain_evs t)).
Proof. exact bypass_run_plain. Qed.
Print Assumptions C03_bypass_plain.

Theorem C03_every_boundary : forall (P : list op) (t : list iev), wf t -> Forall wf (bnd_pipe P t).
Proof. exact every_boundary_wf. Qed.
Print Assumptions C03_every_boundary.
(* consecutive operators see each other's flat output: the boundary after a is the input of b *)
Theorem C03_boundary_composition : forall (a b : br_) (t : list iev),
  flat_run (compose_b a b) t = flat_run b (flat_run a t).
Proof. exact flat_run_compose. Qed.
Print Assumptions C03_boundary_composition.

(* ... and the last boundary is the pipeline's output, so C03_every_boundary contains C03_output_protocol *)
Theorem C03_last_boundary_is_output : forall (P : list op) (t : list iev), P <> [] -> wf t ->
  last (bnd_pipe P t) [] = flat_run (den_pipe P) t.
Proof. exact bnd_pipe_last. Qed.
Print Assumptions C03_last_boundary_is_output.

(* the boolean the correspondence check evaluates on every tapped trace of the real code (MCWf) IS the
   protocol predicate of the theorems above *)
Theorem C03_monitor_is_the_predicate : forall t : list oev,
  tap_wf t = true <-> allowed_seq [] (evs_of_oevs t).
Proof. intro t. unfold tap_wf. apply allowed_seq_b_iff. Qed.
Print Assumptions C03_monitor_is_the_predicate.

Example C03_boundaries_example :
  bnd_pipe [ORoll 2 1 [OScan A2Count (VInt 0) TInt true None]]
           [Create [4]; Next [4] (It (VInt 7)); Next [4] (It (VInt 8)); Done [4]]%nat
  = [ (* after count, inside the roll *)
      [Create [8; 4]; Create [9; 4]; Next [8; 4] (It (VInt 2)); Done [8; 4]; Next [9; 4] (It (VInt 1)); Done [9; 4]];
      (* what roll feeds to its inner pipeline *)
      [Create [8; 4]; Next [8; 4] (It (VInt 7)); Create [9; 4]; Next [8; 4] (It (VInt 8)); Done [8; 4];
       Next [9; 4] (It (VInt 8)); Done [9; 4]];
      (* after the roll *)
      [Create [4]; Next [4] (It (VInt 2)); Next [4] (It (VInt 1)); Done [4]] ]%nat.
Proof. vm_compute. reflexivity. Qed.

Example C03_example :
  concat (raw_run [OGroup (FMod 2) [OScan A2Count (VInt 0) TInt true None]]
            [Create [4]; Next [4] (It (VInt 1)); Next [4] (It (VInt 2)); Next [4] (It (VInt 3)); Done [4]]%nat)
  = [Create [4]; Next [4] (It (VInt 2)); Next [4] (It (VInt 1)); Done [4]]%nat.
Proof. vm_compute. reflexivity. Qed.
