(* C18 - CSV dump/load round-trips typed rows (rxsci/container/csv.py, with the two repairs of
   DESIGN-repairs.md: parse_decimal = float, closing quote by parity of the preceding escape run).
   Only statements here; proofs are `exact <lemma>`.

   Scope: one-character separator p distinct from the double quote (chr 34) and from the escape
   character; one-character escape character distinct from the double quote.  Multi-character
   separators are covered by the correspondence check only.

   Number layer (oracle assumptions about CPython, validated on every generated number by the
   correspondence check, not proved): str_int/int_of and str_float/float_of are arbitrary functions with
     int_of (str_int n) = Some n,  float_of (str_float x) = Some x   (shortest-repr round trip)
     printed_ok p text: the printed form is non-empty, does not contain the separator and does not
     start with a double quote; for the file theorems it also contains no newline.
   None (VNone) is allowed in int/float columns: dump writes the empty text for it, parse_int /
   parse_decimal return None for the empty text. *)
From Coq Require Import List Arith ZArith NArith Bool Lia.
From RxVerif Require Import Framing.Line Container.Csv Container.CsvProofs Container.IntText Container.IntTextProofs Container.FloatText Container.FloatTextProofs Container.FloatTextShortest.
Import ListNotations.

(* un-escaping inverts escaping, for every string *)
Theorem C18_unescape_escape : forall (esc : Z), esc <> quote ->
  forall s : list Z, unescape esc (escape esc s) = s.
Proof. exact unescape_escape. Qed.
Print Assumptions C18_unescape_escape.

(* the closing quote of a quoted field is recognised, and no quote inside the field is mistaken for it:
   _ends_with_closing_quote holds exactly after an even run of escape characters *)
Theorem C18_closing_quote_parity : forall (esc : Z) (s : list Z), esc <> quote ->
  closing esc (escape esc s ++ [quote]) = true /\
  forall u v, escape esc s = u ++ quote :: v -> closing esc (u ++ [quote]) = false.
Proof. exact closing_quote_parity. Qed.
Print Assumptions C18_closing_quote_parity.

(* merge_escape_parts (split sep line) = the rendered fields *)
Theorem C18_merge_split : forall (F : Type) (str_int : Z -> list Z) (str_float : F -> list Z) (p esc : Z),
  p <> quote -> p <> esc -> esc <> quote ->
  (forall n, printed_ok p (str_int n)) -> (forall x, printed_ok p (str_float x)) ->
  (forall b, ~ In p (str_bool b)) ->
  forall (types : list ty) (row : list (value F)), Forall2 field_ok types row -> row <> [] ->
  merge_escape_parts [p] esc (str_split [p] (dump_line F str_int str_float [p] esc row))
  = map (render F str_int str_float esc) row.
Proof. exact merge_split_dump. Qed.
Print Assumptions C18_merge_split.

(* one field: quote stripping, un-escaping and typed parsing give back the value *)
Theorem C18_field_roundtrip : forall (F : Type) (str_int : Z -> list Z) (int_of : list Z -> option Z)
    (str_float : F -> list Z) (float_of : list Z -> option F) (p esc : Z),
  esc <> quote ->
  (forall n, int_of (str_int n) = Some n) -> (forall x, float_of (str_float x) = Some x) ->
  (forall n, printed_ok p (str_int n)) -> (forall x, printed_ok p (str_float x)) ->
  forall (t : ty) (v : value F), field_ok t v ->
  parse_field F int_of float_of t (unquote esc (render F str_int str_float esc v)) = Some v.
Proof. exact field_roundtrip. Qed.
Print Assumptions C18_field_roundtrip.

(* the property, line level: every row of 1.. columns, every string (any mix of separator, quote,
   escape character at any position, empty strings, blanks) *)
Theorem C18_line_roundtrip : forall (F : Type) (str_int : Z -> list Z) (int_of : list Z -> option Z)
    (str_float : F -> list Z) (float_of : list Z -> option F) (p esc : Z),
  p <> quote -> p <> esc -> esc <> quote ->
  (forall n, int_of (str_int n) = Some n) -> (forall x, float_of (str_float x) = Some x) ->
  (forall n, printed_ok p (str_int n)) -> (forall x, printed_ok p (str_float x)) ->
  (forall b, ~ In p (str_bool b)) ->
  forall (types : list ty) (row : list (value F)), Forall2 field_ok types row -> row <> [] ->
  parse_line F int_of float_of [p] esc types (dump_line F str_int str_float [p] esc row) = Some row.
Proof. exact line_roundtrip. Qed.
Print Assumptions C18_line_roundtrip.

(* the property, file level: what dump (header + one line per row, newline terminated) writes, cut into
   ANY chunks (empty chunks, cuts anywhere), unframed by line.unframe and loaded, gives back the rows *)
Theorem C18_file_roundtrip : forall (F : Type) (str_int : Z -> list Z) (int_of : list Z -> option Z)
    (str_float : F -> list Z) (float_of : list Z -> option F) (p esc : Z),
  p <> quote -> p <> esc -> esc <> quote ->
  (forall n, int_of (str_int n) = Some n) -> (forall x, float_of (str_float x) = Some x) ->
  (forall n, printed_ok p (str_int n)) -> (forall x, printed_ok p (str_float x)) ->
  (forall b, ~ In p (str_bool b)) ->
  p <> newline -> esc <> newline ->
  (forall n, text_no_nl (str_int n)) -> (forall x, text_no_nl (str_float x)) ->
  forall (types : list ty) (names : list (list Z)) (rows : list (list (value F))) (chunks : list (list Z)),
  Forall text_no_nl names ->
  Forall (fun row => Forall2 field_ok types row /\ row <> [] /\ Forall value_no_nl row) rows ->
  concat chunks = concat (dump_lines F str_int str_float [p] esc [newline] names rows) ->
  load_chunks F int_of float_of [p] esc types chunks = (rows, true).
Proof. exact file_roundtrip. Qed.
Print Assumptions C18_file_roundtrip.

(* ... in particular with the 64 KiB reads of load_from_file, whatever the size of the file *)
Theorem C18_file_roundtrip_64k : forall (F : Type) (str_int : Z -> list Z) (int_of : list Z -> option Z)
    (str_float : F -> list Z) (float_of : list Z -> option F) (p esc : Z),
  p <> quote -> p <> esc -> esc <> quote ->
  (forall n, int_of (str_int n) = Some n) -> (forall x, float_of (str_float x) = Some x) ->
  (forall n, printed_ok p (str_int n)) -> (forall x, printed_ok p (str_float x)) ->
  (forall b, ~ In p (str_bool b)) ->
  p <> newline -> esc <> newline ->
  (forall n, text_no_nl (str_int n)) -> (forall x, text_no_nl (str_float x)) ->
  forall (types : list ty) (names : list (list Z)) (rows : list (list (value F))),
  Forall text_no_nl names ->
  Forall (fun row => Forall2 field_ok types row /\ row <> [] /\ Forall value_no_nl row) rows ->
  load_file F int_of float_of [p] esc types
    (concat (dump_lines F str_int str_float [p] esc [newline] names rows)) = (rows, true).
Proof. exact file_roundtrip_64k. Qed.
Print Assumptions C18_file_roundtrip_64k.

(* ---------------------------------------------------------------------------------------------
   the INT half of the number layer made concrete: py_str_int = CPython str(n) (decimal digits, '-' for negatives),
   py_int_of = the fragment of int(text) the loader needs (optional sign, ASCII digits).  The correspondence check
   compares both with CPython on every int and every int text of every case (C18Corr.int_layer_ok).  With them the
   round trips keep only the FLOAT hypotheses; the separator character must not be '-' or a digit.
   --------------------------------------------------------------------------------------------- *)
Theorem C18_int_text_roundtrip : forall n : Z, py_int_of (py_str_int n) = Some n.
Proof. exact py_int_roundtrip. Qed.
Print Assumptions C18_int_text_roundtrip.
Theorem C18_int_text_printed : forall (p n : Z), p <> 45%Z -> ~ (48 <= p <= 57)%Z -> printed_ok p (py_str_int n).
Proof. exact py_int_printed. Qed.
Print Assumptions C18_int_text_printed.
Theorem C18_line_roundtrip_int_concrete : forall (F : Type) (str_float : F -> list Z) (float_of : list Z -> option F)
    (p esc : Z),
  p <> quote -> p <> esc -> esc <> quote ->
  p <> 45%Z -> ~ (48 <= p <= 57)%Z ->
  (forall x, float_of (str_float x) = Some x) ->
  (forall x, printed_ok p (str_float x)) ->
  (forall b, ~ In p (str_bool b)) ->
  forall (types : list ty) (row : list (value F)), Forall2 field_ok types row -> row <> [] ->
  parse_line F py_int_of float_of [p] esc types (dump_line F py_str_int str_float [p] esc row) = Some row.
Proof. exact csv_line_int_concrete. Qed.
Print Assumptions C18_line_roundtrip_int_concrete.
Theorem C18_file_roundtrip_int_concrete : forall (F : Type) (str_float : F -> list Z) (float_of : list Z -> option F)
    (p esc : Z),
  p <> quote -> p <> esc -> esc <> quote ->
  p <> 45%Z -> ~ (48 <= p <= 57)%Z ->
  (forall x, float_of (str_float x) = Some x) ->
  (forall x, printed_ok p (str_float x)) ->
  (forall b, ~ In p (str_bool b)) ->
  p <> newline -> esc <> newline ->
  (forall x, text_no_nl (str_float x)) ->
  forall (types : list ty) (names : list (list Z)) (rows : list (list (value F))) (chunks : list (list Z)),
  Forall text_no_nl names ->
  Forall (fun row => Forall2 field_ok types row /\ row <> [] /\ Forall value_no_nl row) rows ->
  concat chunks = concat (dump_lines F py_str_int str_float [p] esc [newline] names rows) ->
  load_chunks F py_int_of float_of [p] esc types chunks = (rows, true).
Proof. exact csv_file_int_concrete. Qed.
Print Assumptions C18_file_roundtrip_int_concrete.
Example C18_int_text_examples :
  py_str_int 0 = [48]%Z /\ py_str_int (-1234567890) = [45;49;50;51;52;53;54;55;56;57;48]%Z
  /\ py_int_of [43;55]%Z = Some 7%Z /\ py_int_of [48;48;55]%Z = Some 7%Z /\ py_int_of [45]%Z = None /\ py_int_of [] = None.
Proof. vm_compute. repeat split; reflexivity. Qed.

(* ---------------------------------------------------------------------------------------------
   the FLOAT half of the number layer made concrete (Container/FloatText.v): fl = canonical finite binary64 values
   (sign, mantissa, exponent); py_str_float = CPython repr / str of a float (the shortest decimal that converts back,
   found by searching 1..17 digits with exact integer arithmetic, formatted as repr does: scientific iff the decimal
   exponent is below -4 or at least 16); py_float_of = float(text) on [sign] digits [. digits] [e|E [sign] digits] with
   correct rounding (half to even).  Proved: the search succeeds on EVERY binary64 value (17 digits always suffice), hence
   float(str x) = x for every canonical x; the printed text consists of digits . - + e.  The correspondence check
   compares both functions with CPython on every float and every float text of every case (C18Corr.float_layer_ok).
   With both layers concrete NO hypothesis about numbers remains in the round trips (okfl = the canonical values).
   Outside the model: inf / nan, texts with whitespace / underscores / non-ASCII digits; not proved: that the text is the
   SHORTEST one and CPython's tie-break among equally short ones (compared with CPython on every case).
   --------------------------------------------------------------------------------------------- *)
Theorem C18_float_text_roundtrip : forall x, fl_ok x -> py_float_of (py_str_float x) = Some x.
Proof. exact py_float_roundtrip_all. Qed.
Print Assumptions C18_float_text_roundtrip.
Theorem C18_float_text_seventeen_digits_suffice : forall x, fl_ok x -> shortest_found x.
Proof. exact shortest_found_all. Qed.
Print Assumptions C18_float_text_seventeen_digits_suffice.
Theorem C18_float_text_printed : forall p x, ~ float_char p -> printed_ok p (py_str_float x).
Proof. exact py_float_printed. Qed.
Print Assumptions C18_float_text_printed.
Theorem C18_line_roundtrip_all_concrete : forall (p esc : Z),
  p <> quote -> p <> esc -> esc <> quote ->
  ~ float_char p ->
  (forall b, ~ In p (str_bool b)) ->
  forall (types : list ty) (row : list (value okfl)), Forall2 field_ok types row -> row <> [] ->
  parse_line okfl py_int_of okfl_of [p] esc types (dump_line okfl py_str_int okfl_str [p] esc row) = Some row.
Proof. exact csv_line_float_concrete. Qed.
Print Assumptions C18_line_roundtrip_all_concrete.
Theorem C18_file_roundtrip_all_concrete : forall (p esc : Z),
  p <> quote -> p <> esc -> esc <> quote ->
  ~ float_char p ->
  (forall b, ~ In p (str_bool b)) ->
  p <> newline -> esc <> newline ->
  forall (types : list ty) (names : list (list Z)) (rows : list (list (value okfl))) (chunks : list (list Z)),
  Forall text_no_nl names ->
  Forall (fun row => Forall2 field_ok types row /\ row <> [] /\ Forall value_no_nl row) rows ->
  concat chunks = concat (dump_lines okfl py_str_int okfl_str [p] esc [newline] names rows) ->
  load_chunks okfl py_int_of okfl_of [p] esc types chunks = (rows, true).
Proof. exact csv_file_float_concrete. Qed.
Print Assumptions C18_file_roundtrip_all_concrete.
Theorem C18_file_roundtrip_64k_all_concrete : forall (p esc : Z),
  p <> quote -> p <> esc -> esc <> quote ->
  ~ float_char p ->
  (forall b, ~ In p (str_bool b)) ->
  p <> newline -> esc <> newline ->
  forall (types : list ty) (names : list (list Z)) (rows : list (list (value okfl))),
  Forall text_no_nl names ->
  Forall (fun row => Forall2 field_ok types row /\ row <> [] /\ Forall value_no_nl row) rows ->
  load_file okfl py_int_of okfl_of [p] esc types
    (concat (dump_lines okfl py_str_int okfl_str [p] esc [newline] names rows)) = (rows, true).
Proof. exact csv_file_64k_float_concrete. Qed.
Print Assumptions C18_file_roundtrip_64k_all_concrete.
(* every canonical binary64 value is a member of okfl *)
Theorem C18_okfl_is_every_canonical_float : forall x, fl_okb x = true -> okflb x = true.
Proof. exact okflb_all. Qed.
Print Assumptions C18_okfl_is_every_canonical_float.
Example C18_float_text_examples :
  py_str_float (mkfl false 7205759403792794 (-56)) = [48; 46; 49]%Z                       (* 0.1 *)
  /\ py_str_float (mkfl true 6755399441055744 (-52)) = [45; 49; 46; 53]%Z                  (* -1.5 *)
  /\ py_float_of [49; 101; 49; 54]%Z = Some (mkfl false 5000000000000000 1).               (* 1e16 *)
Proof. vm_compute. repeat split; reflexivity. Qed.

(* ---------------------------------------------------------------------------------------------
   non-vacuity
   --------------------------------------------------------------------------------------------- *)
(* a toy number layer that satisfies every assumed law for p = ',' and esc = '\' : the hypotheses of the
   theorems above are jointly satisfiable, and the theorem instantiates to a closed statement *)
Local Open Scope Z_scope.
Definition toy_str (n : Z) : list Z := [Z.abs n + 200; if n <? 0 then 45 else 43]%Z.
Definition toy_of (t : list Z) : option Z :=
  match t with [a; s] => Some (if s =? 45 then - (a - 200) else a - 200)%Z | _ => None end.
Example C18_laws_satisfiable : forall (types : list ty) (row : list (value Z)),
  Forall2 field_ok types row -> row <> [] ->
  parse_line Z toy_of toy_of [44%Z] 92%Z types (dump_line Z toy_str toy_str [44%Z] 92%Z row) = Some row.
Proof.
  assert (R : forall n, toy_of (toy_str n) = Some n).
  { intro n. unfold toy_of, toy_str. destruct (Z.ltb_spec n 0); cbn [Z.eqb Pos.eqb]; f_equal; lia. }
  assert (P : forall n, printed_ok 44%Z (toy_str n)).
  { intro n. unfold printed_ok, toy_str. split; [discriminate|]. split.
    - intros [E|[E|[]]]; [lia|destruct (n <? 0)%Z; discriminate].
    - unfold first_is_quote, quote. apply Z.eqb_neq. lia. }
  apply (C18_line_roundtrip Z toy_str toy_of toy_str toy_of 44%Z 92%Z); auto; try discriminate.
  intros b E; destruct b; cbn in E; repeat (destruct E as [E|E]; [discriminate|]); exact E.
Qed.

(* concrete rows, evaluated: sep ',', escape '\'; strings  ,\  and  aQ  (Q = double quote) and the empty string *)
Example C18_dump_example :
  dump_line Z toy_str toy_str [44] 92 [VStr [44; 92]; VBool true; VStr [97; 34]; VNone; VStr []; VInt (-3)]%Z
  = [34;44;92;92;34; 44; 84;114;117;101; 44; 34;97;92;34;34; 44; 44; 34;34; 44; 203;45]%Z.
Proof. vm_compute. reflexivity. Qed.
Example C18_parse_example :
  parse_line Z toy_of toy_of [44] 92 [TStr; TBool; TStr; TInt; TStr; TInt]%Z
    [34;44;92;92;34; 44; 84;114;117;101; 44; 34;97;92;34;34; 44; 44; 34;34; 44; 203;45]%Z
  = Some [VStr [44; 92]; VBool true; VStr [97; 34]; VNone; VStr []; VInt (-3)]%Z.
Proof. vm_compute. reflexivity. Qed.
(* the pieces of  Q,\\Q,QxQ  (Q = double quote) are  Q  \\Q  QxQ : the second one closes the field
   (two escape characters before the quote) *)
Example C18_merge_example :
  merge_escape_parts [44] 92 (str_split [44] [34;44;92;92;34; 44; 34;120;34])%Z
  = [[34;44;92;92;34]; [34;120;34]]%Z.
Proof. vm_compute. reflexivity. Qed.
(* a multi-character separator (model evaluated; no theorem) *)
Example C18_multichar_example :
  str_split [124;124] [97;124;124;124;98;124;124]%Z = [[97]; [124;98]; []]%Z.
Proof. vm_compute. reflexivity. Qed.

(* (placed last: the imports below shadow names of Csv.v such as load_chunks) *)
From RxVerif Require Import Container.Json Container.JsonLines Container.C19EndToEnd Container.C18EndToEnd Container.MoreEndToEnd.
(* ---------------------------------------------------------------------------------------------
   END TO END at the level of BYTES, no premise about numbers, codec or compression left (C18EndToEnd.v): rows -> CSV text
   (Csv.v, concrete int / float / bool layers) -> UTF-8 incremental codec model of C17 -> no compression or the gzip model of
   C16 (stored-block compressor of the model, full inflate) -> ANY byte re-chunking / reading in pieces of any size n ->
   incremental decode -> load = the rows.  New premises are on the data only: separator, escape, column names and string
   fields are Unicode scalar values (cp_ok).  load_byte_chunks answers ([], false) when a stage fails.
   --------------------------------------------------------------------------------------------- *)
Theorem C18_end_to_end_bytes_any_rechunking_plain : forall (p esc : Z),
  p <> quote -> p <> esc -> esc <> quote ->
  ~ float_char p ->
  (forall b, ~ In p (str_bool b)) ->
  p <> newline -> esc <> newline ->
  cp_ok p -> cp_ok esc ->
  forall (types : list ty) (names : list (list Z)) (rows : list (list (value okfl))) (r : list (list Z)),
  Forall text_no_nl names ->
  Forall (fun row => Forall2 field_ok types row /\ row <> [] /\ Forall value_no_nl row) rows ->
  Forall (Forall cp_ok) names -> Forall (Forall value_cp_ok) rows ->
  concat r = dump_bytes id_compress p esc names rows ->
  load_byte_chunks id_decompress p esc types r = (rows, true).
Proof. exact C18_e2e_bytes_any_rechunking_plain. Qed.
Print Assumptions C18_end_to_end_bytes_any_rechunking_plain.
Theorem C18_end_to_end_bytes_file_read_plain : forall (p esc : Z),
  p <> quote -> p <> esc -> esc <> quote ->
  ~ float_char p ->
  (forall b, ~ In p (str_bool b)) ->
  p <> newline -> esc <> newline ->
  cp_ok p -> cp_ok esc ->
  forall (types : list ty) (names : list (list Z)) (rows : list (list (value okfl))) (n : nat),
  Forall text_no_nl names ->
  Forall (fun row => Forall2 field_ok types row /\ row <> [] /\ Forall value_no_nl row) rows ->
  Forall (Forall cp_ok) names -> Forall (Forall value_cp_ok) rows ->
  load_byte_chunks id_decompress p esc types (JsonLines.file_read Z n (dump_bytes id_compress p esc names rows)) = (rows, true).
Proof. exact C18_e2e_bytes_file_read_plain. Qed.
Print Assumptions C18_end_to_end_bytes_file_read_plain.
Theorem C18_end_to_end_bytes_any_rechunking_gzip : forall (p esc : Z),
  p <> quote -> p <> esc -> esc <> quote ->
  ~ float_char p ->
  (forall b, ~ In p (str_bool b)) ->
  p <> newline -> esc <> newline ->
  cp_ok p -> cp_ok esc ->
  forall (types : list ty) (names : list (list Z)) (rows : list (list (value okfl))) (r : list (list Z)),
  Forall text_no_nl names ->
  Forall (fun row => Forall2 field_ok types row /\ row <> [] /\ Forall value_no_nl row) rows ->
  Forall (Forall cp_ok) names -> Forall (Forall value_cp_ok) rows ->
  concat r = dump_bytes gz_comp p esc names rows ->
  load_byte_chunks gz_decomp p esc types r = (rows, true).
Proof. exact C18_e2e_bytes_any_rechunking_gzip. Qed.
Print Assumptions C18_end_to_end_bytes_any_rechunking_gzip.
Theorem C18_end_to_end_bytes_file_read_gzip : forall (p esc : Z),
  p <> quote -> p <> esc -> esc <> quote ->
  ~ float_char p ->
  (forall b, ~ In p (str_bool b)) ->
  p <> newline -> esc <> newline ->
  cp_ok p -> cp_ok esc ->
  forall (types : list ty) (names : list (list Z)) (rows : list (list (value okfl))) (n : nat),
  Forall text_no_nl names ->
  Forall (fun row => Forall2 field_ok types row /\ row <> [] /\ Forall value_no_nl row) rows ->
  Forall (Forall cp_ok) names -> Forall (Forall value_cp_ok) rows ->
  load_byte_chunks gz_decomp p esc types (JsonLines.file_read Z n (dump_bytes gz_comp p esc names rows)) = (rows, true).
Proof. exact C18_e2e_bytes_file_read_gzip. Qed.
Print Assumptions C18_end_to_end_bytes_file_read_gzip.
(* the same behind the zstd frame model of C16 (raw-block encoder of the model, frame scanner; MoreEndToEnd.v) *)
Theorem C18_end_to_end_bytes_any_rechunking_zstd : forall (p esc : Z),
  p <> quote -> p <> esc -> esc <> quote ->
  ~ float_char p ->
  (forall b, ~ In p (str_bool b)) ->
  p <> newline -> esc <> newline ->
  cp_ok p -> cp_ok esc ->
  forall (types : list ty) (names : list (list Z)) (rows : list (list (value okfl))) (r : list (list Z)),
  Forall text_no_nl names ->
  Forall (fun row => Forall2 field_ok types row /\ row <> [] /\ Forall value_no_nl row) rows ->
  Forall (Forall cp_ok) names -> Forall (Forall value_cp_ok) rows ->
  concat r = dump_bytes zs_comp p esc names rows ->
  load_byte_chunks zs_decomp p esc types r = (rows, true).
Proof. exact C18_e2e_bytes_any_rechunking_zstd. Qed.
Print Assumptions C18_end_to_end_bytes_any_rechunking_zstd.
Theorem C18_end_to_end_bytes_file_read_zstd : forall (p esc : Z),
  p <> quote -> p <> esc -> esc <> quote ->
  ~ float_char p ->
  (forall b, ~ In p (str_bool b)) ->
  p <> newline -> esc <> newline ->
  cp_ok p -> cp_ok esc ->
  forall (types : list ty) (names : list (list Z)) (rows : list (list (value okfl))) (n : nat),
  Forall text_no_nl names ->
  Forall (fun row => Forall2 field_ok types row /\ row <> [] /\ Forall value_no_nl row) rows ->
  Forall (Forall cp_ok) names -> Forall (Forall value_cp_ok) rows ->
  load_byte_chunks zs_decomp p esc types (JsonLines.file_read Z n (dump_bytes zs_comp p esc names rows)) = (rows, true).
Proof. exact C18_e2e_bytes_file_read_zstd. Qed.
Print Assumptions C18_end_to_end_bytes_file_read_zstd.
(* the usual separators with the backslash as escape satisfy every side condition; two rows with a non-ASCII string holding
   the separator and a quote, read back in pieces of 1 and 5 bytes, both compression settings; a file cut inside a
   4-byte character is refused *)
Example C18_end_to_end_example :
  (forall p, In p [44; 59; 9; 124]%Z ->
     p <> quote /\ p <> 92%Z /\ 92%Z <> quote /\ ~ float_char p /\ (forall b, ~ In p (str_bool b)) /\ p <> newline /\ 92%Z <> newline
     /\ cp_ok p /\ cp_ok 92%Z)
  /\ map (fun n => show (load_byte_chunks id_decompress 44%Z 92%Z ex_types
                          (JsonLines.file_read Z n (dump_bytes id_compress 44%Z 92%Z ex_names ex_rows)))) [1; 5]%nat
     = [show (ex_rows, true); show (ex_rows, true)]
  /\ map (fun n => show (load_byte_chunks gz_decomp 44%Z 92%Z ex_types
                          (JsonLines.file_read Z n (dump_bytes gz_comp 44%Z 92%Z ex_names ex_rows)))) [1; 5]%nat
     = [show (ex_rows, true); show (ex_rows, true)]
  /\ snd (load_byte_chunks id_decompress 44%Z 92%Z ex_types [firstn 51 (dump_bytes id_compress 44%Z 92%Z ex_names ex_rows)]) = false.
Proof.
  exact (conj C18_e2e_side_conditions_ok (conj C18_e2e_plain_example (conj C18_e2e_gzip_example C18_e2e_bad_bytes_example))).
Qed.

