(* C10 - per-key sequence operators match their list semantics.  Statements only.
   steps_of L xs : what the per-key local machine L emits while each item of xs is consumed
                   (prefix_map f [] xs: the i-th entry is f (items before x_i) x_i);
   done_of L xs  : what it emits when the key completes.
   The local machines are the `bl` components of `den`; C02_master_refinement and
   C10_lifetime_bridge carry these statements to the slot-level machine on every well-formed trace. *)
From Coq Require Import List ZArith Bool Sorting.Permutation Sorting.Sorted.
From RxVerif Require Import Mux.Val Mux.Sim Mux.SimExt Mux.Ops Mux.Syntax Mux.ConfineProofs Mux.LocalSemProofs
  Mux.MasterProofs Mux.OpsSpecProofs Mux.BatchProofs Mux.Sort Mux.SortProofs.
Import ListNotations.

(* bridge: for every pipeline P, every well-formed trace t and every lifetime of a key k inside it,
   the slot-level machine emits, during the events of that lifetime, exactly the timed list semantics
   of P's local machine on the lifetime's items *)
Theorem C10_lifetime_bridge : forall (P : list op) (t pre : list iev) (k : key) (xs : list item), wf t ->
  filter (on_key item k) t = pre ++ lifetime item k xs ->
  sel item k t (raw_run P t) =
    local_run P pre ++
    ([Create k] :: map (map (Next k)) (fst (ltimed item (pipe_l P) xs))
                ++ [map (Next k) (snd (ltimed item (pipe_l P) xs)) ++ [Done k]]).
Proof. exact lifetime_outputs. Qed.
Print Assumptions C10_lifetime_bridge.

Theorem C10_single_operator : forall (o : op) (xs : list item),
  ltimed item (pipe_l [o]) xs = ltimed item (bl item (den o)) xs.
Proof. intros o xs. rewrite pipe_l_single. apply ltimed_compose_id. Qed.
Print Assumptions C10_single_operator.

Theorem C10_take : forall n xs,
  steps_of (L_take n) xs = prefix_map (fun pre x => if (Z.of_nat (length pre) <? n)%Z then [It x] else []) [] xs
  /\ done_of (L_take n) xs = [].
Proof. exact take_spec. Qed.
Print Assumptions C10_take.
Theorem C10_take_items : forall n xs, items_of item (L_take n) (its xs) = its (firstn (Z.to_nat n) xs).
Proof. exact take_items. Qed.
Print Assumptions C10_take_items.
Theorem C10_first_items : forall xs, items_of item L_first (its xs) = its (firstn 1 xs).
Proof. exact first_items. Qed.
Print Assumptions C10_first_items.
Theorem C10_last_items : forall xs,
  items_of item L_last (its xs) = match xs with [] => [] | x :: r => [It (last r x)] end.
Proof. exact last_items. Qed.
Print Assumptions C10_last_items.

(* distinct: an item is emitted iff no earlier item of the key has an == key (Python ==: py_eq) *)
Theorem C10_distinct : forall (km : fn) (kf : val -> val), (forall x, apply1 km x = Ok (kf x)) -> forall xs,
  steps_of (L_distinct km) xs
  = prefix_map (fun pre x => if existsb (fun y => py_eq (kf x) (kf y)) pre then [] else [It x]) [] xs
  /\ done_of (L_distinct km) xs = [].
Proof. exact distinct_spec. Qed.
Print Assumptions C10_distinct.

(* lag(1) and lag(n): pairs (item n steps back, or the first item; item) *)
Theorem C10_lag1 : forall xs,
  steps_of L_lag1 xs = prefix_map (fun pre x => [It (VTuple [last pre x; x])]) [] xs /\ done_of L_lag1 xs = [].
Proof. exact lag1_spec. Qed.
Print Assumptions C10_lag1.
Theorem C10_lagn : forall n xs,
  steps_of (L_lagn n) xs
  = prefix_map (fun pre x => [It (VTuple [nth (length pre - n) (pre ++ [x]) x; x])]) [] xs /\ done_of (L_lagn n) xs = [].
Proof. exact lagn_spec. Qed.
Print Assumptions C10_lagn.

(* padding around a non-empty sequence, nothing for an empty one *)
Theorem C10_pad_start : forall n pv xs,
  steps_of (L_pad_start n pv) xs
  = prefix_map (fun pre x => match pre with [] => repeat (It (padv pv x)) n ++ [It x] | _ => [It x] end) [] xs
  /\ done_of (L_pad_start n pv) xs = [].
Proof. exact pad_start_spec. Qed.
Print Assumptions C10_pad_start.
Theorem C10_pad_end : forall n pv xs,
  steps_of (L_pad_end n pv) xs = prefix_map (fun _ x => [It x]) [] xs
  /\ done_of (L_pad_end n pv) xs = match xs with [] => [] | x :: r => repeat (It (padv pv (last r x))) n end.
Proof. exact pad_end_spec. Qed.
Print Assumptions C10_pad_end.
Theorem C10_start_with : forall l xs,
  steps_of (L_start_with l) xs
  = prefix_map (fun pre x => match pre with [] => map It l ++ [It x] | _ => [It x] end) [] xs
  /\ done_of (L_start_with l) xs = [].
Proof. exact start_with_spec. Qed.
Print Assumptions C10_start_with.

(* batch(n), as rxsci defines it (scan with the (list, full) accumulator and its terminator, filter, map):
   consecutive chunks of exactly n items plus one final non-empty shorter chunk; concatenation = input *)
Theorem C10_batch : forall (n : nat), 1 <= n -> forall xs,
  items_of item (pipe_l (batch_ops n)) (its xs) = map (fun ch => It (VList ch)) (bchunks n [] xs).
Proof. exact batch_items. Qed.
Print Assumptions C10_batch.
Theorem C10_batch_chunks : forall (n : nat), 1 <= n -> forall xs,
  concat (bchunks n [] xs) = xs /\
  exists full last_, bchunks n [] xs = full ++ last_ /\ Forall (fun c => length c = n) full /\
    (last_ = [] \/ exists c, last_ = [c] /\ 1 <= length c < n).
Proof. exact batch_chunks_shape. Qed.
Print Assumptions C10_batch_chunks.
(* distinct_until_changed, as rxsci defines it (scan with the (emit, item, key, has_key) accumulator, filter,
   map): one item per run of == keys *)
Theorem C10_distinct_until_changed : forall (km : fn) (kf : val -> val), (forall x, apply1 km x = Ok (kf x)) -> forall xs,
  items_of item (pipe_l (duc_ops km)) (its xs) = its (duc_spec kf None xs).
Proof. exact duc_items. Qed.
Print Assumptions C10_distinct_until_changed.

(* sort (plain observables only: to_list, sorted, to_deque): whenever the key function gives an int for every
   item, the model of sorted(items, key, reverse) that the correspondence check compares with the real
   operator is a permutation of the items, ordered by the sort key (descending with reverse), with the items of
   equal sort key in source order (reverse included) - and it is the only list with these properties *)
Theorem C10_sort_stably_ordered_permutation : forall (f : option fn) (rev : bool) (kf : val -> Z) (xs : list val),
  (forall x, In x xs -> key_res f x = Ok (VInt (kf x))) ->
  exists ys, py_sorted f rev xs = Some ys
    /\ Permutation ys xs
    /\ StronglySorted (fun a b => before rev (kf a) (kf b) = true) ys
    /\ (forall z, filter (fun a => (kf a =? z)%Z) ys = filter (fun a => (kf a =? z)%Z) xs)
    /\ (forall ys', StronglySorted (fun a b => before rev (kf a) (kf b) = true) ys' ->
          (forall z, filter (fun a => (kf a =? z)%Z) ys' = filter (fun a => (kf a =? z)%Z) xs) -> ys' = ys).
Proof. exact py_sorted_spec. Qed.
Print Assumptions C10_sort_stably_ordered_permutation.
Theorem C10_sort_is_a_permutation : forall f rev xs ys, py_sorted f rev xs = Some ys -> Permutation ys xs.
Proof. exact py_sorted_perm. Qed.
Print Assumptions C10_sort_is_a_permutation.
Example C10_example_sort_reverse_is_stable :
  py_sorted (Some (FMod 3)) true [VInt 1; VInt 4; VInt 2; VInt 7] = Some [VInt 2; VInt 1; VInt 4; VInt 7].
Proof. vm_compute. reflexivity. Qed.

(* the local machines above are the ones `den` assigns to the operators *)
Example C10_den_take n : bl item (den (OTake n)) = L_take n. Proof. reflexivity. Qed.
Example C10_den_lag n : bl item (den (OLag n)) = L_lag n. Proof. reflexivity. Qed.
Example C10_den_distinct km : bl item (den (ODistinct km)) = L_distinct km. Proof. reflexivity. Qed.
Example C10_example_batch :
  items_of item (pipe_l (batch_ops 2)) (its [VInt 1; VInt 2; VInt 3]) = [It (VList [VInt 1; VInt 2]); It (VList [VInt 3])].
Proof. vm_compute. reflexivity. Qed.
Example C10_example_lag :
  steps_of (L_lagn 2) [VInt 1; VInt 2; VInt 3; VInt 4]
  = [[It (VTuple [VInt 1; VInt 1])]; [It (VTuple [VInt 1; VInt 2])]; [It (VTuple [VInt 1; VInt 3])]; [It (VTuple [VInt 2; VInt 4])]].
Proof. vm_compute. reflexivity. Qed.
