(* C05 - roll produces exactly the count-based sliding windows, in order.  Statements only.
   For ALL window w >= 1 and stride s >= 1 (s <, =, > w; w not a multiple of s), all stream lengths,
   any number of wrap-arounds of the ring of d = ceil (w / s) slots, any inner machine. *)
From Coq Require Import List ZArith Bool Arith.
From RxVerif Require Import Mux.Val Mux.Sim Mux.SimExt Mux.Seg Mux.Ops Mux.Syntax Mux.LocalSemProofs Mux.SegSpecProofs
  Mux.HeadsSpecProofs Mux.RingProofs Mux.MasterProofs.
Import ListNotations.

(* slot level, w <> s (`_roll`): counters in an array at key[0], window starts in a ring of d slots at
   key[0]*d + o: refines the per-key ring machine over any refined inner machine *)
Theorem C05_roll_refines : forall (I : machine item) (LI : lm) (w s : nat), refines I LI -> 1 <= s -> 1 <= w ->
  refines (roll_m item I w s (density w s)) (roll_l item LI w s (density w s)).
Proof.
  intros I LI w s H Hs Hw.
  exact (roll_refines item unit (fun _ => tt) I LI H w s (density w s) Hs (proj1 (density_ok w s Hs Hw)) (proj2 (density_ok w s Hs Hw)) Hw).
Qed.
Print Assumptions C05_roll_refines.
(* slot level, w = s (`_roll_count`) *)
Theorem C05_roll_count_refines : forall (w : nat) (I : machine item) (LI : lm), refines I LI ->
  refines (seg_m item _ 0 (rollc_next w) rollc_open I) (seg_l item _ 0 (rollc_next w) LI).
Proof. intros w I LI H. exact (seg_refines item _ 0 (rollc_next w) rollc_open rollc_closed (rollc_ok w) I LI H). Qed.
Print Assumptions C05_roll_count_refines.

(* after the items xs of a key, ring slot o holds a window starting at `start` iff start = j*s for the
   window ordinal j with j mod d = o, already opened and not yet full: no open window is ever lost or
   overwritten, however often the ring wraps *)
Theorem C05_ring_holds_exactly_the_open_windows : forall (LI : lm) (w s d : nat), 1 <= s -> 1 <= w -> w <= d * s -> 1 <= d ->
  forall xs o start, o < d ->
  (starts item LI (snd (snd (lsteps item (roll_l item LI w s d) (l0 (roll_l item LI w s d)) xs))) o = Some start
   <-> is_open w s d (length xs) o start).
Proof. exact (roll_ring_exact item). Qed.
Print Assumptions C05_ring_holds_exactly_the_open_windows.
(* item i is delivered to the window starting at st iff st = j*s <= i < st + w: window j receives exactly
   the next w consecutive items from position j*s *)
Theorem C05_delivered_iff : forall (w s d : nat), 1 <= s -> 1 <= w -> w <= d * s -> 1 <= d ->
  forall i st, delivered w s d i st <-> exists j, st = j * s /\ st <= i < st + w.
Proof. exact delivered_iff. Qed.
Print Assumptions C05_delivered_iff.
(* the inner machine of an open window is a fresh one fed with exactly the items since its start *)
Theorem C05_window_contents : forall (LI : lm) (w s d : nat), 1 <= s -> 1 <= w -> w <= d * s -> 1 <= d ->
  forall xs o start sI, o < d ->
  nth o (snd (snd (lsteps item (roll_l item LI w s d) (l0 (roll_l item LI w s d)) xs))) None = Some (start, sI) ->
  sI = RingProofs.st_of item LI (skipn start xs).
Proof. exact (roll_window_contents item). Qed.
Print Assumptions C05_window_contents.
(* the timed output, closed form: while x is consumed after the items pre, every window that is open (after a
   possible opening at this very item) emits, in ring-slot order, what a fresh inner machine fed with the items
   since its start emits on x, and its completion output if x is its w-th item *)
Theorem C05_output_while_an_item_is_consumed : forall (LI : lm) (w s d : nat), 1 <= s -> 1 <= w -> w <= d * s -> 1 <= d ->
  forall pre x,
  snd (lnext (roll_l item LI w s d) (snd (lsteps item (roll_l item LI w s d) (l0 (roll_l item LI w s d)) pre)) x)
  = flat_map (slot_out item LI w s d pre x) (seq 0 d).
Proof. exact (roll_step_out item). Qed.
Print Assumptions C05_output_while_an_item_is_consumed.
(* and when the key completes: the open windows, in the flush order rot, emit their completion output *)
Theorem C05_output_at_completion : forall (LI : lm) (w s d : nat), 1 <= s -> 1 <= w -> w <= d * s -> 1 <= d ->
  forall xs,
  snd (ltimed item (roll_l item LI w s d) xs)
  = flat_map (fun o => match RingProofs.after w s d (length xs) o with
                       | Some st => ldone LI (RingProofs.st_of item LI (skipn st xs)) | None => [] end)
             (rot s d (length xs)).
Proof. exact (roll_done_out item). Qed.
Print Assumptions C05_output_at_completion.
(* at completion the partial windows are closed in the order in which they were opened *)
Theorem C05_flush_position : forall (w s d : nat), 1 <= s -> 1 <= w -> w <= d * s -> 1 <= d ->
  forall n j, j * s < n -> n < j * s + w ->
  j + d - next_ordinal s n < d /\ nth (j + d - next_ordinal s n) (rot s d n) 0 = j mod d.
Proof. exact flush_position. Qed.
Print Assumptions C05_flush_position.
Theorem C05_flush_in_opening_order : forall (w s d : nat), 1 <= s -> 1 <= w -> w <= d * s -> 1 <= d ->
  forall n j1 j2, j1 * s < n -> n < j1 * s + w -> j2 * s < n -> n < j2 * s + w -> j1 < j2 ->
  j1 + d - next_ordinal s n < j2 + d - next_ordinal s n.
Proof. exact flush_in_opening_order. Qed.
Print Assumptions C05_flush_in_opening_order.

(* w = s: consecutive windows of exactly w items plus one final non-empty shorter one, each processed by a
   fresh inner machine, in order *)
Theorem C05_tumbling_windows : forall (w : nat) (LI : lm) (xs : list item), 1 <= w ->
  items_of item (seg_l item _ 0 (rollc_next w) LI) xs = flat_map (items_of item LI) (chunks w xs).
Proof.
  intros w LI xs Hw. rewrite (seg_items item _ 0 (rollc_next w) rollc_open rollc_closed (rollc_ok w) LI xs).
  now rewrite (rollc_segments w Hw).
Qed.
Print Assumptions C05_tumbling_windows.
Theorem C05_tumbling_windows_shape : forall (w : nat), 1 <= w -> forall (xs : list item),
  concat (chunks w xs) = xs /\
  exists full last_, chunks w xs = full ++ last_ /\ Forall (fun c => length c = w) full /\
    (last_ = [] \/ exists c, last_ = [c] /\ 1 <= length c < w).
Proof. exact chunks_spec. Qed.
Print Assumptions C05_tumbling_windows_shape.

Example C05_example :
  ltimed item (bl item (den (ORoll 3 2 [OScan A2Append (VList []) TObj true None])))
              (map (fun z => It (VInt z)) [0; 1; 2; 3; 4; 5]%Z)
  = ([[]; []; [It (VList [VInt 0; VInt 1; VInt 2])]; []; [It (VList [VInt 2; VInt 3; VInt 4])]; []],
     [It (VList [VInt 4; VInt 5])]).
Proof. vm_compute. reflexivity. Qed.
