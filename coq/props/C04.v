(* C04 - group_by partitions the stream by key, preserving order within each group.  Statements only.
   For every key mapper (key values compared by a decidable equality: in `den` the canonical
   serialisation of Python ==, so 1 == 1.0 == True and rebuilt tuples are equal), every inner machine
   and every item sequence of one parent key. *)
From Coq Require Import List ZArith Bool.
From RxVerif Require Import Mux.Val Mux.Sim Mux.SimExt Mux.Ops Mux.Syntax Mux.LocalSemProofs Mux.GroupSpecProofs Mux.MasterProofs.
Import ListNotations.

Section C04.
Variables (V G : Type) (geq : forall a b : G, {a = b} + {a <> b}) (km : V -> G) (LI : lmachine V).

(* slot level (group indices from a global counter, per-slot insertion-ordered maps): refines the
   per-key machine below, over ANY refined inner machine, on every well-formed keyed trace *)
Theorem C04_group_by_refines : forall (I : machine V), refines I LI ->
  refines (group_m V G geq km I) (group_l V G geq km LI).
Proof. intros I H. exact (group_refines V G geq km I LI H). Qed.

(* after xs: one entry per distinct key in first-appearance order; its inner state is that of a fresh
   inner machine that received exactly the members of the group, in source order *)
Theorem C04_each_group_sees_its_subsequence : forall xs,
  snd (lsteps V (group_l V G geq km LI) (l0 (group_l V G geq km LI)) xs)
  = map (fun g => (g, st_of V LI (members V G geq km g xs))) (keys_of V G geq km xs).
Proof. exact (group_run V G geq km LI). Qed.

(* results of a group are emitted as they are produced: while x is consumed only x's group emits *)
Theorem C04_emitted_as_produced : forall pre x,
  snd (lnext (group_l V G geq km LI) (snd (lsteps V (group_l V G geq km LI) (l0 (group_l V G geq km LI)) pre)) x)
  = snd (lnext LI (st_of V LI (members V G geq km (km x) pre)) x).
Proof. exact (group_step_out V G geq km LI). Qed.

(* groups still open when the parent completes are completed in order of first appearance *)
Theorem C04_flush_in_first_appearance_order : forall xs,
  snd (ltimed V (group_l V G geq km LI) xs)
  = flat_map (fun g => ldone LI (st_of V LI (members V G geq km g xs))) (keys_of V G geq km xs).
Proof. exact (group_done V G geq km LI). Qed.

(* one group per distinct key value; every item belongs to exactly the group of its key *)
Theorem C04_one_group_per_key : forall xs, NoDup (keys_of V G geq km xs) /\ (forall g, In g (keys_of V G geq km xs) <-> In g (map km xs)).
Proof. intro xs. split; [apply keys_nodup | intro g; apply keys_in]. Qed.
Theorem C04_partition : forall xs x, In x xs ->
  In x (members V G geq km (km x) xs) /\ forall g, In x (members V G geq km g xs) -> g = km x.
Proof. exact (members_partition V G geq km). Qed.
End C04.
Print Assumptions C04_group_by_refines.
Print Assumptions C04_each_group_sees_its_subsequence.
Print Assumptions C04_emitted_as_produced.
Print Assumptions C04_flush_in_first_appearance_order.
Print Assumptions C04_one_group_per_key.
Print Assumptions C04_partition.

(* key values that are equal but not identical: 1, 1.0 and True are one group *)
Example C04_example :
  ltimed item (bl item (den (OGroup FId [OScan A2Count (VInt 0) TInt true None])))
              [It (VInt 1); It (VFloat PrimFloat.one); It (VInt 2); It (VBool true)]
  = ([[]; []; []; []], [It (VInt 3); It (VInt 1)]).
Proof. vm_compute. reflexivity. Qed.
