(* C17 - incremental text encode/decode is chunk-boundary independent.
   Only statements here; proofs are `exact <lemma>`.
   Code points and bytes are N.  `scalar c` = c is a Unicode scalar value (0..0x10FFFF without the
   surrogates 0xD800..0xDFFF); `valid_cp e c` = scalar c, for latin-1: c < 256.
   `encode e strs` / `decode e chunks` (Codec/Wrapper.v) = the items emitted by rs.data.encode /
   rs.data.decode (one per pushed item, one at completion) and the exception, if any. *)
From Coq Require Import List Arith NArith Lia.
From RxVerif Require Import Codec.Utf8 Codec.Utf16 Codec.Utf32 Codec.Latin1 Codec.Wrapper.
From RxVerif Require Import Codec.Utf8Proofs Codec.Utf16Proofs Codec.Utf32Proofs Codec.Latin1Proofs Codec.WrapperProofs.
Import ListNotations.
Local Open Scope N_scope.

(* --- one character: decoding the encoding of c, followed by anything, gives c and that anything --- *)
Theorem C17_utf8_parse_enc : forall c rest, scalar c -> Utf8.parse1 (Utf8.enc c ++ rest) = Some (c, rest).
Proof. exact Utf8P.parse1_enc. Qed.
Print Assumptions C17_utf8_parse_enc.

Theorem C17_utf16_parse_enc : forall c rest, scalar c -> Utf16.parse1 (Utf16.enc c ++ rest) = Some (c, rest).
Proof. exact Utf16P.parse1_enc. Qed.
Print Assumptions C17_utf16_parse_enc.

Theorem C17_utf32_parse_enc : forall c rest, scalar c -> Utf32.parse1 (Utf32.enc c ++ rest) = Some (c, rest).
Proof. exact Utf32P.parse1_enc. Qed.
Print Assumptions C17_utf32_parse_enc.

Theorem C17_latin1_parse_enc : forall c rest, c < 256 -> Latin1.parse1 (Latin1.enc c ++ rest) = Some (c, rest).
Proof. exact Latin1P.parse1_enc. Qed.
Print Assumptions C17_latin1_parse_enc.

(* the same for all four at once, on the parser the decode wrapper uses *)
Theorem C17_parse_enc : forall e c rest, valid_cp e c -> parse1 e (c_enc (codec_of e) c ++ rest) = Some (c, rest).
Proof. exact parse1_enc. Qed.
Print Assumptions C17_parse_enc.

(* --- a parsed character consumes at least one byte; more input never changes a parsed character --- *)
Theorem C17_parse_progress : forall e buf u rest, parse1 e buf = Some (u, rest) -> (length rest < length buf)%nat.
Proof. exact parse1_progress. Qed.
Print Assumptions C17_parse_progress.

Theorem C17_parse_stable : forall e buf u rest ext,
  parse1 e buf = Some (u, rest) -> parse1 e (buf ++ ext) = Some (u, rest ++ ext).
Proof. exact parse1_stable. Qed.
Print Assumptions C17_parse_stable.

(* the decoders only ever produce scalar values (nothing is "replaced" by a surrogate or an out-of-range value) *)
Theorem C17_utf8_decodes_scalars : forall buf c rest,
  Forall (fun b => b < 256) buf -> Utf8.dec1 buf = Got c rest -> scalar c.
Proof. exact Utf8P.dec1_scalar. Qed.
Print Assumptions C17_utf8_decodes_scalars.

Theorem C17_utf16_decodes_scalars : forall buf c rest,
  Forall (fun b => b < 256) buf -> Utf16.dec1 false buf = Got c rest -> scalar c.
Proof. exact Utf16P.dec1_scalar. Qed.
Print Assumptions C17_utf16_decodes_scalars.

Theorem C17_utf32_decodes_scalars : forall be buf c rest, Utf32.dec1 be buf = Got c rest -> scalar c.
Proof. exact Utf32P.dec1_scalar. Qed.
Print Assumptions C17_utf32_decodes_scalars.

(* --- encode: one item per string plus the completion item; the BOM in front of the FIRST item only,
       whatever the strings are (empty strings, no string at all: then the completion item carries it) --- *)
Theorem C17_encode_bom_once : forall e strs, Forall (Forall (valid_cp e)) strs ->
  encode e strs = (with_bom e (map (enc_str (codec_of e)) strs ++ [[]]), NoErr).
Proof. exact encode_spec. Qed.
Print Assumptions C17_encode_bom_once.

Theorem C17_encode_concat : forall e strs, Forall (Forall (valid_cp e)) strs ->
  concat (fst (encode e strs)) = c_bom (codec_of e) false ++ flat_map (c_enc (codec_of e)) (concat strs).
Proof. exact encode_concat. Qed.
Print Assumptions C17_encode_concat.

(* --- C17: every re-chunking of the encoder's output (empty chunks, cuts inside a character or inside
       the BOM) decodes, without error, to items whose concatenation is the concatenation of the strings;
       one item per chunk and one at completion --- *)
Theorem C17_roundtrip : forall (e : encoding) (strs chunks : list (list N)),
  Forall (Forall (valid_cp e)) strs ->
  concat chunks = concat (fst (encode e strs)) ->
  exists outs, decode e chunks = (outs, NoErr) /\ concat outs = concat strs /\ length outs = S (length chunks).
Proof. exact roundtrip. Qed.
Print Assumptions C17_roundtrip.

(* non-vacuity: astral character, combining mark, NUL, U+FEFF as a character, empty strings; cuts inside
   the BOM, inside a surrogate pair, inside a 4-byte UTF-8 sequence *)
Example C17_utf8_example :
  encode EUtf8 [[]; [0x65; 0x301]; [0x1F600; 0]] = ([[]; [0x65; 0xCC; 0x81]; [0xF0; 0x9F; 0x98; 0x80; 0]; []], NoErr)
  /\ decode EUtf8 [[0x65; 0xCC]; []; [0x81; 0xF0; 0x9F]; [0x98]; [0x80; 0]]
     = ([[0x65]; []; [0x301]; []; [0x1F600; 0]; []], NoErr).
Proof. vm_compute. split; reflexivity. Qed.
Example C17_utf16_example :
  encode EUtf16 [[]; []; [0x1F600]; [0xFEFF]] = ([[0xFF; 0xFE]; []; [0x3D; 0xD8; 0x00; 0xDE]; [0xFF; 0xFE]; []], NoErr)
  /\ decode EUtf16 [[0xFF]; [0xFE; 0x3D]; [0xD8; 0x00]; []; [0xDE; 0xFF; 0xFE]]
     = ([[]; []; []; []; [0x1F600; 0xFEFF]; []], NoErr)
  /\ encode EUtf16 [] = ([[0xFF; 0xFE]], NoErr).
Proof. vm_compute. repeat split; reflexivity. Qed.
Example C17_utf32_example :
  decode EUtf32 [[0xFF; 0xFE; 0]; [0; 0; 0xF6]; [1; 0]] = ([[]; []; [0x1F600]; []], NoErr)
  /\ encode EUtf32 [[]; [0x1F600]] = ([[0xFF; 0xFE; 0; 0]; [0; 0xF6; 1; 0]; []], NoErr).
Proof. vm_compute. split; reflexivity. Qed.
Example C17_hypotheses_inhabited :
  Forall (Forall (valid_cp EUtf16)) [[]; [0x1F600; 0x301]; []] /\ Forall (Forall (valid_cp ELatin1)) [[0; 255]].
Proof. unfold valid_cp, scalar. repeat constructor; lia. Qed.
(* malformed input is an explicit error in the model, not silently dropped *)
Example C17_errors_example :
  decode EUtf8 [[0xE0]; [0x80]] = ([[]], DecodeError) /\ decode EUtf8 [[0xF0; 0x9F]] = ([[]], DecodeError)
  /\ decode EUtf8 [[0xED; 0xA0]; [0x80]] = ([[]], DecodeError) /\ decode EUtf8 [[0xED; 0xA0; 0x80]] = ([], DecodeError)
  /\ decode EUtf16 [[0x41]; [0]] = ([[]], NoBomError) /\ encode EUtf8 [[0x61]; [0xD800]] = ([[0x61]], EncodeError).
Proof. vm_compute. repeat split; reflexivity. Qed.
