(* C14 - the memory state store behaves as an isolated per-index typed map.
   Only statements here; proofs are `exact <lemma>`.

   Vocabulary (theories/Store/MemStore.v, StoreSpec.v):
     results ty d ops   every return value of the literal MemoryStore model on history `ops`, from the
                        empty store of data type `ty` and default value `d` (VNone = no default)
     final ty d ops     the model store after history `ops`;  exec s o / after s os : one / several more
     reads s o          the return value of operation o on store s (RErr e = the exception raised)
     abs                abstraction to the specification: sorted finite map index -> (key,is_set,value)
     spec_step/spec_run the specification (no arrays, no markers, no growth, counter allocator)
     arr_conv ty v      what the typed container of `ty` stores for v (inl) or the exception (inr)
     read_as ty v       get()'s view of a stored cell (bool(v) for a bool store)
     in_store s j       j lies inside the arrays (it was added, or a larger index was)
   All theorems quantify over EVERY history `ops` (any order, sparse, descending, repeated indices,
   error cases included). *)
From Coq Require Import List ZArith NArith Bool Arith Sorted.
From RxVerif Require Import Store.MemStore Store.StoreSpec Store.MemStoreProofs.
Import ListNotations.

(* (1) refinement: every return value (errors included) equals the specification's, and the final
   abstract states coincide; abs commutes with every single step from every reachable store *)
Theorem C14_refinement : forall ty d ops,
  results ty d ops = snd (spec_run (sp_init ty d) ops) /\
  abs (final ty d ops) = fst (spec_run (sp_init ty d) ops).
Proof. exact refinement. Qed.
Print Assumptions C14_refinement.

Theorem C14_refinement_step : forall ty d ops o,
  abs (exec (final ty d ops) o) = fst (spec_step (abs (final ty d ops)) o) /\
  reads (final ty d ops) o = snd (spec_step (abs (final ty d ops)) o).
Proof. exact T_refinement_step. Qed.
Print Assumptions C14_refinement_step.

(* (2a) fresh after add_key: NOTSET without default; the coerced default with one; {} for a mapper *)
Theorem C14_fresh_after_add_key : forall ty ops i t, ty <> TMapper ->
  let s1 := exec (final ty VNone ops) (OAddKey i t) in
  reads (final ty VNone ops) (OAddKey i t) = RUnit /\
  reads s1 (OGet i) = RNotSet /\ reads s1 (OIsSet i) = RBool false /\ reads s1 (OIsCleared i) = RBool false.
Proof. exact T_fresh_nodefault. Qed.
Print Assumptions C14_fresh_after_add_key.

Theorem C14_fresh_after_add_key_default : forall ty d ops i t v,
  ty <> TMapper -> d <> VNone -> arr_conv ty d = inl v ->
  let s1 := exec (final ty d ops) (OAddKey i t) in
  reads (final ty d ops) (OAddKey i t) = RUnit /\
  reads s1 (OGet i) = RVal (read_as ty v) /\ reads s1 (OIsSet i) = RBool true /\
  reads s1 (OIsCleared i) = RBool false.
Proof. exact T_fresh_default. Qed.
Print Assumptions C14_fresh_after_add_key_default.

Theorem C14_fresh_after_add_key_mapper : forall d ops i t,
  let s1 := exec (final TMapper d ops) (OAddKey i t) in
  reads (final TMapper d ops) (OAddKey i t) = RUnit /\
  reads s1 (OGet i) = RVal (VDict []) /\ reads s1 (OIsSet i) = RBool true /\
  reads s1 (OIsCleared i) = RBool false /\ reads s1 (OIterateMap i) = RKeys [].
Proof. exact T_fresh_mapper. Qed.
Print Assumptions C14_fresh_after_add_key_mapper.

(* (2b) read-your-write with the declared type's coercion *)
Theorem C14_read_your_write : forall ty d ops i t v v',
  in_store (final ty d ops) i -> arr_conv ty v = inl v' ->
  let s1 := exec (final ty d ops) (OSet i t v) in
  reads (final ty d ops) (OSet i t v) = RUnit /\
  reads s1 (OGet i) = RVal (read_as ty v') /\ reads s1 (OIsSet i) = RBool true /\
  reads s1 (OIsCleared i) = RBool false.
Proof. exact T_read_your_write. Qed.
Print Assumptions C14_read_your_write.

(* (2c) fresh again after del_key ; add_key -- no stale value, not even in iterate *)
Theorem C14_fresh_after_del_add : forall ty ops i t, ty <> TMapper ->
  let s2 := exec (exec (final ty VNone ops) (ODelKey i)) (OAddKey i t) in
  reads s2 (OGet i) = RNotSet /\ reads s2 (OIsSet i) = RBool false /\
  reads s2 (OIsCleared i) = RBool false /\
  exists l, reads s2 OIterate = RIter l /\ In (Some (i, t), zero_of ty, false) l.
Proof. exact T_fresh_after_del_add. Qed.
Print Assumptions C14_fresh_after_del_add.

(* (2d) independence: any further operations that do not address j leave every read of j unchanged *)
Theorem C14_independence : forall ty d ops more j r,
  Forall (fun o => op_index o <> Some j) more -> in_store (final ty d ops) j -> is_read_of j r ->
  reads (after (final ty d ops) more) r = reads (final ty d ops) r.
Proof. exact T_independence. Qed.
Print Assumptions C14_independence.

(* (2e) iterate enumerates exactly the non-cleared slots, in strictly increasing index order, with
   the flag is_set and the stored cell that get() reads *)
Theorem C14_iterate_exact : forall ty d ops,
  exists l, reads (final ty d ops) OIterate = RIter l /\
    StronglySorted lt (map entry_index l) /\
    Forall (fun e => fst (fst e) <> None) l /\
    (forall i, (exists t v b, In (Some (i, t), v, b) l) <-> reads (final ty d ops) (OIsCleared i) = RBool false) /\
    (forall i t v b, In (Some (i, t), v, b) l ->
       reads (final ty d ops) (OIsSet i) = RBool b /\
       reads (final ty d ops) (OGet i) = if b then RVal (read_as ty v) else RNotSet).
Proof. exact T_iterate_exact. Qed.
Print Assumptions C14_iterate_exact.

(* (2f) the group-index allocator never hands out an index present in any map (histories in which
   set() is not used to plant a dict), and the indices it hands out strictly increase *)
Theorem C14_add_map_index_not_in_use : forall ty d ops i k n, Forall writes_no_dict ops ->
  reads (final ty d ops) (OAddMap i k) = RIdx n ->
  forall j k', reads (final ty d ops) (OGetMap j k') <> RIdx n.
Proof. exact add_map_fresh. Qed.
Print Assumptions C14_add_map_index_not_in_use.

Theorem C14_add_map_indices_increase : forall ty d ops,
  StronglySorted N.lt (handed_out ops (results ty d ops)).
Proof. exact handed_out_increasing. Qed.
Print Assumptions C14_add_map_indices_increase.

(* (2g) iterate_map enumerates exactly the mapped keys, in first-insertion order *)
Theorem C14_iterate_map_exact : forall d ops i t ks,
  reads (after (exec (final TMapper d ops) (OAddKey i t)) (map (OAddMap i) ks)) (OIterateMap i)
  = RKeys (dedup ks).
Proof. exact T_iterate_map_exact. Qed.
Print Assumptions C14_iterate_map_exact.

Theorem C14_dedup_exact : forall ks, NoDup (dedup ks) /\ (forall k, In k (dedup ks) <-> In k ks).
Proof. exact dedup_spec. Qed.
Print Assumptions C14_dedup_exact.

(* operations on an index inside the store do not raise *)
Theorem C14_no_error_in_store : forall ty d ops i, in_store (final ty d ops) i ->
  (forall e, reads (final ty d ops) (OGet i) <> RErr e) /\
  (forall e, reads (final ty d ops) (OIsSet i) <> RErr e) /\
  (forall e, reads (final ty d ops) (OIsCleared i) <> RErr e) /\
  reads (final ty d ops) (ODelKey i) = RUnit.
Proof. exact T_no_error_in_store. Qed.
Print Assumptions C14_no_error_in_store.

(* ---- non-vacuity: concrete histories, evaluated ---- *)
(* sparse, descending, repeated indices; bool store with default; get() gives bools, iterate raw cells *)
Example C14_example_bool :
  results TBool (VBool false)
    [OAddKey 5 1; OAddKey 2 0; OGet 5; OSet 2 0 (VInt 7); OGet 2; OGet 3; OIsCleared 3; OIterate;
     ODelKey 5; OGet 5; OAddKey 5 3; OGet 5; OGet 9; OSet 2 0 (VInt 256); OGet 2]
  = [RUnit; RUnit; RVal (VBool false); RUnit; RVal (VBool true); RVal (VBool false); RBool true;
     RIter [(Some (2%N, 0%Z), VInt 7, true); (Some (5%N, 1%Z), VInt 0, true)];
     RUnit; RVal (VBool false); RUnit; RVal (VBool false); RErr IndexError; RErr OverflowError;
     RVal (VBool true)].
Proof. vm_compute. reflexivity. Qed.
(* int store without default: NOTSET until written, fresh again after del_key ; add_key *)
Example C14_example_int :
  results TInt VNone
    [OAddKey 3 0; OGet 3; OSet 3 0 (VBool true); OGet 3; ODelKey 3; OAddKey 3 2; OGet 3; OIterate;
     OSet 0 0 (VInt 4); OGet 0; OSet 3 0 (VFloat 1); OIsSet 3; OGet 3]
  = [RUnit; RNotSet; RUnit; RVal (VInt 1); RUnit; RUnit; RNotSet;
     RIter [(Some (3%N, 2%Z), VInt 0, false)]; RUnit; RVal (VInt 4); RErr TypeError; RBool true;
     RVal (VInt 0)].
Proof. vm_compute. reflexivity. Qed.
(* mapper: indices 0,1,2,... never reused; insertion order kept; del_map deletes nothing *)
Example C14_example_mapper :
  results TMapper VNone
    [OAddKey 1 0; OAddMap 1 (KInt 7); OAddMap 1 (KStr [97%Z]); OAddMap 1 (KInt 7); OAddKey 0 0;
     OAddMap 0 (KInt 7); OIterateMap 1; OGetMap 1 (KInt 7); ODelMap 1 (KInt 7); OGetMap 1 (KInt 7);
     OGetMap 0 (KInt 8); ODelKey 1; OAddMap 1 (KInt 1); OAddMap 0 (KInt 9)]
  = [RUnit; RIdx 0; RIdx 1; RIdx 2; RUnit; RIdx 3; RKeys [KInt 7; KStr [97%Z]]; RIdx 2; RIdx 2; RIdx 2;
     RNotSet; RUnit; RErr TypeError; RIdx 5].
Proof. vm_compute. reflexivity. Qed.
(* the hypotheses of the corollaries are satisfiable *)
Example C14_example_hyps :
  in_store (final TFloat VNone [OAddKey 4 0]) 2%N /\
  arr_conv TFloat (VInt 3) = inl (VFloat 3) /\ arr_conv TUInt (VInt (-1)) = inr OverflowError /\
  dedup [KInt 1; KStr []; KInt 1; KInt 2]%Z = [KInt 1; KStr []; KInt 2]%Z /\
  handed_out [OAddMap 0 (KInt 1); OGet 0; OAddMap 0 (KInt 1)] [RIdx 0; RNotSet; RIdx 1] = [0; 1]%N.
Proof. vm_compute. repeat split; auto with arith. Qed.
