(* C13 - item-level errors on multiplexed streams are isolated and routable.  Statements only.
   Local (per key) level; C02_master_refinement / C10_lifetime_bridge carry them to the slot-level
   machine on every well-formed keyed trace, so other keys are unaffected by construction. *)
From Coq Require Import List ZArith Bool.
From RxVerif Require Import Mux.Val Mux.Sim Mux.SimExt Mux.Ops Mux.Syntax Mux.LocalSemProofs Mux.OpsSpecProofs
  Mux.HandlersProofs Mux.MasterProofs Mux.ConfineProofs.
Import ListNotations.

(* exactly one mux error per failing item, at its position, at the operator's own output *)
Theorem C13_map_one_error_per_failing_item : forall f xs,
  steps_of (L_map f) xs = prefix_map (fun _ x => out_res (apply1 f x)) [] xs /\ done_of (L_map f) xs = [].
Proof. exact map_spec. Qed.
Print Assumptions C13_map_one_error_per_failing_item.
Theorem C13_filter_one_error_per_failing_item : forall p xs,
  steps_of (L_filter p) xs
  = prefix_map (fun _ x => match apply1 p x with Ok r => if truthy r then [It x] else [] | Raise e => [IErr e] end) [] xs
  /\ done_of (L_filter p) xs = [].
Proof. exact filter_spec. Qed.
Print Assumptions C13_filter_one_error_per_failing_item.
Theorem C13_scan_failing_item_absent : forall a seed t reduce term st x e rest,
  apply2 a (match st with Some c => c | None => seed end) x = Raise e ->
  lsteps item (L_scan a seed t reduce term) st (It x :: rest)
  = ([IErr e] :: fst (lsteps item (L_scan a seed t reduce term) st rest), snd (lsteps item (L_scan a seed t reduce term) st rest)).
Proof. exact scan_failing_item_absent. Qed.
Print Assumptions C13_scan_failing_item_absent.

(* ignore: the failing step emits nothing, every other step is as without the handler *)
Theorem C13_map_ignore : forall f xs,
  fst (ltimed item (compose_l (L_map f) L_ignore) (its xs))
  = prefix_map (fun _ x => match apply1 f x with Ok y => [It y] | Raise _ => [] end) [] xs.
Proof. exact map_ignore_spec. Qed.
Print Assumptions C13_map_ignore.
Theorem C13_filter_ignore : forall p xs,
  fst (ltimed item (compose_l (L_filter p) L_ignore) (its xs))
  = prefix_map (fun _ x => match apply1 p x with Ok r => if truthy r then [It x] else [] | Raise _ => [] end) [] xs.
Proof. exact filter_ignore_spec. Qed.
Print Assumptions C13_filter_ignore.
(* error.map: the mapped item in place *)
Theorem C13_map_errmap : forall f g xs,
  fst (ltimed item (compose_l (L_map f) (L_errmap g)) (its xs))
  = prefix_map (fun _ x => match apply1 f x with
                           | Ok y => [It y]
                           | Raise e => match apply1 g (VInt e) with Ok y => [It y] | Raise e' => [IFatal e'] end
                           end) [] xs.
Proof. exact map_errmap_spec. Qed.
Print Assumptions C13_map_errmap.
(* router: the exception goes to the dead-letter channel, in order *)
Theorem C13_map_route : forall f xs,
  fst (ltimed item (compose_l (L_map f) L_route) (its xs))
  = prefix_map (fun _ x => match apply1 f x with Ok y => [It y] | Raise e => [IDead e] end) [] xs.
Proof. exact map_route_spec. Qed.
Print Assumptions C13_map_route.
(* no handler: on_error where the stream is demultiplexed, in the step of the failing item *)
Theorem C13_map_unhandled : forall f xs,
  fst (ltimed item (compose_l (L_map f) L_errfatal) (its xs))
  = prefix_map (fun _ x => match apply1 f x with Ok y => [It y] | Raise e => [IFatal e] end) [] xs.
Proof. exact map_unhandled_spec. Qed.
Print Assumptions C13_map_unhandled.
(* other keys: what is emitted during the events of a key is a function of that key's events only *)
Theorem C13_other_keys_unaffected : forall (P : list op) (t : list iev) (k : key), wf t ->
  sel item k t (raw_run P t) = local_run P (filter (on_key item k) t).
Proof. exact pipe_confined. Qed.
Print Assumptions C13_other_keys_unaffected.

Example C13_example :
  fst (ltimed item (compose_l (L_map (FRaiseIf FIsOdd 2%Z)) L_ignore) (its [VInt 1; VInt 2; VInt 3; VInt 4]))
  = [[]; [It (VInt 2)]; []; [It (VInt 4)]].
Proof. vm_compute. reflexivity. Qed.
Example C13_den : bl item (den OIgnore) = L_ignore /\ bl item (den ORoute) = L_route. Proof. split; reflexivity. Qed.
