(* C02 - state confinement.  Statements only; proofs are `exact <lemma>`.
   raw_run P t   : per input event, what the SLOT-LEVEL machine of pipeline P emits (state in arrays
                   addressed by key[0], ring slots, group indices from a global counter, tee cells)
   local_run P t : the same for the key-lift of P's index-free per-key local machine
   sel k t outs  : the outputs emitted while the events of key k were processed *)
From Coq Require Import List ZArith.
From RxVerif Require Import Mux.Val Mux.Sim Mux.SimExt Mux.Ops Mux.Syntax Mux.ConfineProofs Mux.MasterProofs.
Import ListNotations.

(* every pipeline of the grammar (all stateful operators, group_by / roll / split / time_split /
   tee_map nested to any depth) refines its per-key local machine on every well-formed trace *)
Theorem C02_master_refinement : forall P : list op, refines (pipe_m P) (pipe_l P).
Proof. exact master_refinement. Qed.
Print Assumptions C02_master_refinement.

(* what is emitted during the events of key k is a function of k's own events: other keys, their
   interleaving, and earlier users of k's slot are irrelevant *)
Theorem C02_key_confinement : forall (P : list op) (t : list iev) (k : key), wf t ->
  sel item k t (raw_run P t) = local_run P (filter (on_key item k) t).
Proof. exact pipe_confined. Qed.
Print Assumptions C02_key_confinement.

(* and from a `Create k` on, it does not depend on what came before (earlier lifetimes of k) *)
Theorem C02_lifetime_confinement : forall (P : list op) (t pre life : list iev) (k : key), wf t ->
  filter (on_key item k) t = pre ++ Create k :: life ->
  sel item k t (raw_run P t) = local_run P pre ++ local_run P (Create k :: life).
Proof. exact pipe_lifetime. Qed.
Print Assumptions C02_lifetime_confinement.

(* non-vacuity: two interleaved keys and a reused slot through roll(3,1,[tee_map(sum, take 1, zip)]) *)
Definition exP : list op :=
  [ORoll 3 1 [OTee Zip [[OScan A2Add (VInt 0) TInt false None]; [OTake 1]]]].
Definition exT : list iev :=
  [Create [1]; Next [1] (It (VInt 1)); Create [2]; Next [2] (It (VInt 10)); Next [1] (It (VInt 2));
   Done [1]; Create [1; 5]; Next [1; 5] (It (VInt 7)); Next [2] (It (VInt 20)); Done [2]; Done [1; 5]]%nat.
Example C02_example_wf : wf exT.
Proof.
  unfold wf, exT. cbn. repeat split; auto; try tauto;
    intros k' H; repeat (destruct H as [H|H]; [subst k'; cbn; congruence|]); destruct H.
Qed.
Example C02_example :
  sel item [1; 5]%nat exT (raw_run exP exT)
  = [[Create [1; 5]]; [Next [1; 5] (It (VTuple [VInt 7; VInt 7]))]; [Done [1; 5]]]%nat.
Proof. vm_compute. reflexivity. Qed.
