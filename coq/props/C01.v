(* C01 - multiplexing is transparent.  Statements only.
   plain_pipe P xs = Some ys : the pipeline P of dual-mode operators (map, starmap, filter, flat_map,
     scan with or without terminator and everything defined through it: count, sum, mean, min, max,
     variance, stddev, to_list, batch, distinct_until_changed; first, last, take, assert_, assert_1,
     identity, clip, fill_none, do_action), run on a PLAIN
     observable emitting xs, emits ys and completes (Mux/Plain.v; tied to the real RxPY run by the
     correspondence check).  None = the plain run ends with on_error (a raising function, first/last
     on an empty group, a failing assert): excluded by the property.
   The typed-state precondition of the property is built into plain_pipe (scan_res requires `fits`).
   ptimed_pipe P xs = Some (steps, fin) : the TIMED plain list semantics (Mux/PlainTimed.v), tee_map with
     its three joins included: while the i-th item is pushed the plain subscriber receives nth i steps,
     and fin when the source completes.  Pure list functions.  take / first are modelled as ceasing to pass
     items; a plain observable really completes there, which gives the same timed outputs exactly on the
     tee_safe fragment of the property (no completion-triggered operator downstream of take / first:
     PlainTimed.tsafe), and on that fragment ptimed_pipe is tied to the real plain runs step by step by
     the correspondence check (MCPlainT). *)
From Coq Require Import List ZArith Bool.
From RxVerif Require Import Mux.Val Mux.Sim Mux.SimExt Mux.Ops Mux.Syntax Mux.ConfineProofs Mux.LocalSemProofs
  Mux.OpsSpecProofs Mux.MasterProofs Mux.Plain Mux.PlainProofs Mux.PlainTimed Mux.PlainTimedProofs.
Import ListNotations.

(* per key: over one lifetime the local machine of P emits exactly what P computes on a plain observable *)
Theorem C01_local_equals_plain : forall (P : list op) (xs ys : list val),
  plain_pipe P xs = Some ys -> items_of item (pipe_l P) (its xs) = its ys.
Proof. exact plain_pipe_items. Qed.
Print Assumptions C01_local_equals_plain.

(* keyed execution: on every well-formed keyed trace (any number of keys, any interleaving, reused slots),
   what the slot-level machine emits during the lifetime of key k is the timed output of that local
   machine on the lifetime's items alone *)
Theorem C01_keyed_execution_is_per_group_execution :
  forall (P : list op) (t pre : list iev) (k : key) (xs : list item), wf t ->
  filter (on_key item k) t = pre ++ lifetime item k xs ->
  sel item k t (raw_run P t) =
    local_run P pre ++
    ([Create k] :: map (map (Next k)) (fst (ltimed item (pipe_l P) xs))
                ++ [map (Next k) (snd (ltimed item (pipe_l P) xs)) ++ [Done k]]).
Proof. exact lifetime_outputs. Qed.
Print Assumptions C01_keyed_execution_is_per_group_execution.

(* compositions to any depth: the local machine of a pipeline is the composition of list functions *)
Theorem C01_composition : forall (L1 L2 : lm) (xs : list item),
  items_of item (compose_l L1 L2) xs = items_of item L2 (items_of item L1 xs).
Proof. exact (compose_items item). Qed.
Print Assumptions C01_composition.

(* ... and step by step, tee_map included: the local machine emits while each item is consumed, and at
   completion, exactly what the timed plain semantics says the pipeline emits on a plain observable *)
Theorem C01_local_equals_plain_timed : forall (P : list op) (xs : list val) (r : timed),
  ptimed_pipe P xs = Some r -> ltimed item (pipe_l P) (its xs) = (map its (fst r), its (snd r)).
Proof. exact ptimed_pipe_sound. Qed.
Print Assumptions C01_local_equals_plain_timed.

(* the two plain models are consistent: flattening the timed semantics gives plain_pipe *)
Theorem C01_plain_models_agree : forall (P : list op) (xs ys : list val) (r : timed),
  plain_pipe P xs = Some ys -> ptimed_pipe P xs = Some r -> ys = concat (fst r) ++ snd r.
Proof. exact plain_models_agree. Qed.
Print Assumptions C01_plain_models_agree.

Example C01_example_tee :
  ptimed_pipe [OTee Zip [[OFilter FIsOdd]; [OScan A2Add (VInt 0) TInt false None]]; OMap (FNth 1%nat)]
              [VInt 1; VInt 2; VInt 3]
  = Some ([[VInt 1]; []; [VInt 3]], []).
Proof. vm_compute. reflexivity. Qed.

Example C01_example :
  plain_pipe [OFilter (FMod 2); OScan A2Add (VInt 0) TInt false None; OTake 2] [VInt 1; VInt 2; VInt 3; VInt 5]
  = Some [VInt 1; VInt 4].
Proof. vm_compute. reflexivity. Qed.
Example C01_example_mux :
  items_of item (pipe_l [OFilter (FMod 2); OScan A2Add (VInt 0) TInt false None; OTake 2]) (its [VInt 1; VInt 2; VInt 3; VInt 5])
  = its [VInt 1; VInt 4].
Proof. vm_compute. reflexivity. Qed.
