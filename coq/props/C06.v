(* C06 - split cuts each key's stream into maximal runs of equal predicate value.  Statements only. *)
From Coq Require Import List ZArith Bool.
From RxVerif Require Import Mux.Val Mux.Sim Mux.SimExt Mux.Seg Mux.Ops Mux.Syntax Mux.LocalSemProofs Mux.SegSpecProofs
  Mux.HeadsSpecProofs Mux.MasterProofs.
Import ListNotations.

(* slot level: state in an array addressed by key[0], inner key (key[0], key); refines the per-key
   machine over any refined inner machine, on every well-formed keyed trace (interleaved keys, reuse) *)
Theorem C06_split_refines : forall (pred : fn) (I : machine item) (LI : lm), refines I LI ->
  refines (seg_m item _ None (split_next pred) (@opt_open (list Z)) I) (seg_l item _ None (split_next pred) LI).
Proof. intros pred I LI H. exact (seg_refines item _ None (split_next pred) (@opt_open (list Z)) eq_refl (split_ok pred) I LI H). Qed.
Print Assumptions C06_split_refines.

(* every run is processed by a FRESH copy of the inner machine; outputs in run order; the last run is
   closed at completion; no item, no segment *)
Theorem C06_runs_processed_independently : forall (pred : fn) (LI : lm) (xs : list item),
  items_of item (seg_l item _ None (split_next pred) LI) xs = flat_map (items_of item LI) (runs pred xs).
Proof.
  intros pred LI xs. rewrite (seg_items item _ None (split_next pred) (@opt_open (list Z)) eq_refl (split_ok pred) LI xs).
  now rewrite split_segments.
Qed.
Print Assumptions C06_runs_processed_independently.

(* the runs are contiguous, in source order, and cover every item exactly once *)
Theorem C06_runs_partition : forall pred xs, concat (runs pred xs) = xs.
Proof. exact runs_concat. Qed.
Print Assumptions C06_runs_partition.
(* inside a run all predicate values are == ; adjacent runs have different values (maximality) *)
Theorem C06_runs_maximal : forall pred xs,
  adj_diff pred (runs pred xs) /\ Forall (fun r => exists q, uniform pred q r) (runs pred xs).
Proof. exact runs_maximal. Qed.
Print Assumptions C06_runs_maximal.
Theorem C06_empty_key_no_segment : forall pred, runs pred [] = [].
Proof. reflexivity. Qed.
Print Assumptions C06_empty_key_no_segment.

Example C06_example :
  runs (FFloorDiv 2) [It (VInt 2); It (VInt 3); It (VInt 4); It (VInt 6); It (VInt 7)]
  = [[It (VInt 2); It (VInt 3)]; [It (VInt 4)]; [It (VInt 6); It (VInt 7)]].
Proof. vm_compute. reflexivity. Qed.
