(* C11 - streaming promptness.  Statements only.
   Every theorem of C04-C10 and C13 is an equality of TIMED outputs (what is emitted while each source
   event is consumed), so the emission position of every output is part of those statements:
   per-item operators and running aggregates emit in the step of their item (C09_running_fold, C10_take,
   C10_lag*, C13_*: prefix_map), reduce / last / pad_end only in the completion step (C09_reduce_fold,
   C10_last_items, C10_pad_end), group results in the step of the item (C04_emitted_as_produced).
   Here: the facts that make this a property of whole pipelines. *)
From Coq Require Import List ZArith Bool Arith.
From RxVerif Require Import Mux.Val Mux.Sim Mux.SimExt Mux.Seg Mux.Ops Mux.Syntax Mux.ConfineProofs Mux.LocalSemProofs
  Mux.OpsSpecProofs Mux.MasterProofs Mux.PromptProofs Mux.QuietProofs.
Import ListNotations.

(* nothing is emitted for an input that has not been consumed yet: what the slot-level machine of any
   pipeline emits during a prefix of the trace does not depend on the rest of the trace *)
Theorem C11_causal : forall (P : list op) (t1 t2 : list iev),
  firstn (length t1) (raw_run P (t1 ++ t2)) = raw_run P t1.
Proof. intros P t1 t2. unfold raw_run. rewrite !run_timed_mrun. apply mrun_prefix. Qed.
Print Assumptions C11_causal.
Theorem C11_one_output_list_per_event : forall (P : list op) (t : list iev), length (raw_run P t) = length t.
Proof. intros P t. unfold raw_run. rewrite run_timed_mrun. apply mrun_length. Qed.
Print Assumptions C11_one_output_list_per_event.

(* synchronous composition preserves emission positions: in every step the downstream machine consumes
   exactly what the upstream machine emits in that step (no buffering, no scheduler hop) *)
Theorem C11_pipelines_preserve_positions : forall (L1 L2 : lm) (xs : list item) a b,
  fst (lsteps item (compose_l L1 L2) (a, b) xs) = fst (feed_steps item L2 b (fst (lsteps item L1 a xs))).
Proof. exact (compose_timed item). Qed.
Print Assumptions C11_pipelines_preserve_positions.

(* the per-step outputs of the slot-level machine ARE those of the local machine, on every wf trace *)
Theorem C11_timed_refinement : forall (P : list op) (t : list iev), wf t -> raw_run P t = local_run P t.
Proof. exact pipe_run_local. Qed.
Print Assumptions C11_timed_refinement.

(* window / segment results appear in the step of their closing item: a closing action feeds the inner
   completion in the same step (roll: the w-th item; split: the first item of the next run) *)
Theorem C11_segment_closed_in_the_step_of_its_closing_item : forall (LI : lm) (st : LS LI),
  lact item LI (Some st) (AClose item) = (None, ldone LI st).
Proof. reflexivity. Qed.
Print Assumptions C11_segment_closed_in_the_step_of_its_closing_item.
Theorem C11_roll_window_closed_with_its_wth_item : forall (LI : lm) (w n start : nat) (x : item) (sI : LS LI),
  closes w n start = true ->
  lcell_step item LI w n x (Some (start, sI)) = (None, snd (lnext LI sI x) ++ ldone LI (fst (lnext LI sI x))).
Proof. intros LI w n start x sI H. cbn [lcell_step]. destruct (lnext LI sI x). rewrite H. reflexivity. Qed.
Print Assumptions C11_roll_window_closed_with_its_wth_item.

(* in multiplexed mode take does not end the key: later items are consumed and dropped, the key
   completes with its parent (the wait named in the property) *)
Theorem C11_take_keeps_the_key_open : forall n xs,
  steps_of (L_take n) xs = prefix_map (fun pre x => if (Z.of_nat (length pre) <? n)%Z then [It x] else []) [] xs
  /\ done_of (L_take n) xs = [].
Proof. exact take_spec. Qed.
Print Assumptions C11_take_keeps_the_key_open.

(* nothing is held back: a pipeline without completion-triggered operators (no last, reduce, terminator,
   pad_end; at any nesting depth under group_by / roll / split / time_split / tee_map) emits nothing when a key
   completes - so every one of its outputs has appeared in the step of a source item *)
Theorem C11_nothing_held_back : forall (P : list op), per_item_pipe P = true ->
  forall xs : list item, snd (ltimed item (pipe_l P) xs) = [].
Proof. exact nothing_held_back. Qed.
Print Assumptions C11_nothing_held_back.
(* at slot level, on every well-formed keyed trace: the completion step of key k carries Done k alone *)
Corollary C11_completion_step_is_bare : forall (P : list op) (t pre : list iev) (k : key) (xs : list item),
  per_item_pipe P = true -> wf t -> filter (on_key item k) t = pre ++ lifetime item k xs ->
  sel item k t (raw_run P t) =
    local_run P pre ++ ([Create k] :: map (map (Next k)) (fst (ltimed item (pipe_l P) xs)) ++ [[Done k]]).
Proof.
  intros P t pre k xs Hp Ht E. rewrite (lifetime_outputs P t pre k xs Ht E).
  rewrite (nothing_held_back P Hp xs). reflexivity.
Qed.
Print Assumptions C11_completion_step_is_bare.
Example C11_per_item_example :
  per_item_pipe [OGroup (FMod 2) [ORoll 3 1 [OScan A2Add (VInt 0) TInt false None; OTee Zip [[OMap FId]; [OLag 1]]]]] = true.
Proof. reflexivity. Qed.

Example C11_example :
  raw_run [ORoll 2 2 [OScan A2Add (VInt 0) TInt true None]]
          [Create [0]; Next [0] (It (VInt 1)); Next [0] (It (VInt 2)); Next [0] (It (VInt 3)); Done [0]]%nat
  = [[Create [0]]; []; [Next [0] (It (VInt 3))]; []; [Next [0] (It (VInt 3)); Done [0]]]%nat.
Proof. vm_compute. reflexivity. Qed.
