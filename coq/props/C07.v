(* C07 - time_split sessions respect active/inactive timeouts and closing items.  Statements only.
   sessions tm a i closing incl xs : the windows given by the decision rules of the property
   (HeadsSpecProofs.sessions_go): an item opens a new window iff its timestamp is >= reference + active
   or >= previous + inactive; otherwise, if closing_mapper accepts it, it closes the current window and
   belongs to it (include_closing_item) or to the next one; the reference is the first item's timestamp
   or that of the preceding closing item. *)
From Coq Require Import List ZArith Bool.
From RxVerif Require Import Mux.Val Mux.Sim Mux.SimExt Mux.Seg Mux.Ops Mux.Syntax Mux.LocalSemProofs Mux.SegSpecProofs Mux.AffineProofs
  Mux.HeadsSpecProofs Mux.MasterProofs.
Import ListNotations.

Theorem C07_time_split_refines : forall tm a i c incl (I : machine item) (LI : lm), refines I LI ->
  refines (seg_m item _ None (tsplit_next tm a i c incl) (@opt_open (Z * Z)) I) (seg_l item _ None (tsplit_next tm a i c incl) LI).
Proof. intros tm a i c incl I LI H. exact (seg_refines item _ None (tsplit_next tm a i c incl) (@opt_open (Z * Z)) eq_refl (tsplit_ok tm a i c incl) I LI H). Qed.
Print Assumptions C07_time_split_refines.

Theorem C07_windows_are_the_sessions : forall tm a i c incl (LI : lm) (xs : list item),
  items_of item (seg_l item _ None (tsplit_next tm a i c incl) LI) xs
  = flat_map (items_of item LI) (sessions tm a i c incl xs).
Proof.
  intros. rewrite (seg_items item _ None (tsplit_next tm a i c incl) (@opt_open (Z * Z)) eq_refl (tsplit_ok tm a i c incl) LI xs).
  now rewrite tsplit_segments.
Qed.
Print Assumptions C07_windows_are_the_sessions.

(* every item is delivered to exactly one window, in order *)
Theorem C07_sessions_partition : forall tm a i c incl xs, concat (sessions tm a i c incl xs) = xs.
Proof. exact sessions_concat. Qed.
Print Assumptions C07_sessions_partition.

(* the decision rules, one step (cur = open window, start = its reference timestamp, last = previous item's) *)
Theorem C07_rule_new_window : forall tm a i c incl cur start last x r,
  expired a i start last (ts_of tm x) = true ->
  sessions_go tm a i c incl cur start last (x :: r)
  = (cur :: fst (sessions_go tm a i c incl [x] (ts_of tm x) (ts_of tm x) r), snd (sessions_go tm a i c incl [x] (ts_of tm x) (ts_of tm x) r)).
Proof. exact rule_new_window. Qed.
Print Assumptions C07_rule_new_window.
Theorem C07_rule_closing_item_included : forall tm a i c cur start last x r,
  expired a i start last (ts_of tm x) = false -> closing_true c x = true ->
  sessions_go tm a i c true cur start last (x :: r)
  = ((cur ++ [x]) :: fst (sessions_go tm a i c true [] (ts_of tm x) (ts_of tm x) r), snd (sessions_go tm a i c true [] (ts_of tm x) (ts_of tm x) r)).
Proof. exact rule_closing_included. Qed.
Print Assumptions C07_rule_closing_item_included.
Theorem C07_rule_closing_item_excluded : forall tm a i c cur start last x r,
  expired a i start last (ts_of tm x) = false -> closing_true c x = true ->
  sessions_go tm a i c false cur start last (x :: r)
  = (cur :: fst (sessions_go tm a i c false [x] (ts_of tm x) (ts_of tm x) r), snd (sessions_go tm a i c false [x] (ts_of tm x) (ts_of tm x) r)).
Proof. exact rule_closing_excluded. Qed.
Print Assumptions C07_rule_closing_item_excluded.
Theorem C07_rule_same_window : forall tm a i c incl cur start last x r,
  expired a i start last (ts_of tm x) = false -> closing_true c x = false ->
  sessions_go tm a i c incl cur start last (x :: r) = sessions_go tm a i c incl (cur ++ [x]) start (ts_of tm x) r.
Proof. exact rule_same_window. Qed.
Print Assumptions C07_rule_same_window.
(* a gap exactly equal to a timeout opens a new window *)
Theorem C07_expired_iff : forall a i start last new,
  expired a i start last new = true <->
  (exists t, a = Some t /\ (start + t <= new)%Z) \/ (exists t, i = Some t /\ (last + t <= new)%Z).
Proof. exact expired_iff. Qed.
Print Assumptions C07_expired_iff.

(* the decision is invariant under an affine change of the time scale (timestamps base + ts * u, timeouts t * u, u > 0):
   a run with datetime / timedelta values decides as the run with integer timestamps that the model evaluates *)
Theorem C07_decision_invariant_under_affine_time : forall (u base : Z) (a i : option Z) (start last new : Z), (0 < u)%Z ->
  expired (option_map (fun t => t * u)%Z a) (option_map (fun t => t * u)%Z i)
          (base + start * u)%Z (base + last * u)%Z (base + new * u)%Z
  = expired a i start last new.
Proof. exact expired_affine. Qed.
Print Assumptions C07_decision_invariant_under_affine_time.

Example C07_example :
  sessions FId (Some 5%Z) (Some 3%Z) None true (map (fun z => It (VInt z)) [1; 2; 3; 4; 5; 6; 10; 12]%Z)
  = map (map (fun z => It (VInt z))) [[1; 2; 3; 4; 5]; [6]; [10; 12]]%Z.
Proof. vm_compute. reflexivity. Qed.
