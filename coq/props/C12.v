(* C12 - math aggregates are accurate and numerically stable.                     PARTIAL (see C12_partial below)
   Only statements here; proofs are `exact <lemma>`.

   `<agg>_run A reduce xs` (Math/Exact.v) is the list of values the rxsci operator emits for the items xs
   (reduce=false: one value per item; reduce=true: one value at completion), transliterated once, generically
   over an arithmetic A.  `QA sq` is exact arithmetic on the rationals Qc with an arbitrary function sq in the
   role of math.sqrt; `running f xs` is [f (first 1 items); f (first 2 items); ...; f xs].
   Every finite binary64 float and every int is a rational: the theorems below describe the exact statistic of
   the very numbers the operators receive.  The binary64 instance of the same functions (Math/FloatModel.v)
   is what the correspondence stage compares bit for bit with CPython. *)
From Coq Require Import List ZArith Bool QArith Qcanon.
From Coq Require Import Reals.
From RxVerif Require Import Math.Exact Math.ExactProofs Math.FloatModel Math.C12Corr Math.SumErrorProofs Math.SumRunningProofs Math.MeanErrorProofs Math.MinMaxFloatProofs Math.FloatOpsProofs Math.VarianceFloatProofs Math.VarianceNonnegProofs Math.WelfordReal Math.WelfordErrorProofs Math.StddevErrorProofs Math.PySumErrorProofs Math.FormalVarianceErrorProofs Math.MixedItemsProofs Math.MixedFormalProofs Math.MixedFormalErrorProofs Math.RelativeFormProofs.
Import ListNotations.
Open Scope Qc_scope.

(* (a) sum, mean, min, max: every running value and the reduce value *)
Theorem C12_exact_sum_running : forall (sq : Qc -> Qc) (xs : list Qc),
  sum_run (QA sq) false xs = running qsum xs.
Proof. exact sum_running. Qed.
Print Assumptions C12_exact_sum_running.

Theorem C12_exact_sum_reduce : forall (sq : Qc -> Qc) (xs : list Qc),
  sum_run (QA sq) true xs = [qsum xs].
Proof. exact sum_reduce. Qed.
Print Assumptions C12_exact_sum_reduce.

Theorem C12_exact_mean_running : forall (sq : Qc -> Qc) (xs : list Qc),
  mean_run (QA sq) false xs = running (fun l => Some (qsum l / qz (zlen l))) xs.
Proof. exact mean_running. Qed.
Print Assumptions C12_exact_mean_running.

Theorem C12_exact_mean_reduce : forall (sq : Qc -> Qc) (xs : list Qc),
  xs <> [] -> mean_run (QA sq) true xs = [Some (qsum xs / qz (zlen xs))].
Proof. exact mean_reduce. Qed.
Print Assumptions C12_exact_mean_reduce.

Theorem C12_exact_min_running : forall (sq : Qc -> Qc) (xs : list Qc),
  Forall2 (fun l o => exists m : Qc, o = Some m /\ In m l /\ Forall (fun x => m <= x) l)
          (running (fun l => l) xs) (min_run (QA sq) false xs).
Proof. exact min_running. Qed.
Print Assumptions C12_exact_min_running.

Theorem C12_exact_max_running : forall (sq : Qc -> Qc) (xs : list Qc),
  Forall2 (fun l o => exists m : Qc, o = Some m /\ In m l /\ Forall (fun x => x <= m) l)
          (running (fun l => l) xs) (max_run (QA sq) false xs).
Proof. exact max_running. Qed.
Print Assumptions C12_exact_max_running.

Theorem C12_exact_min_reduce : forall (sq : Qc -> Qc) (xs : list Qc),
  xs <> [] -> exists m : Qc, min_run (QA sq) true xs = [Some m] /\ In m xs /\ Forall (fun x => m <= x) xs.
Proof. exact min_reduce. Qed.
Print Assumptions C12_exact_min_reduce.

Theorem C12_exact_max_reduce : forall (sq : Qc -> Qc) (xs : list Qc),
  xs <> [] -> exists m : Qc, max_run (QA sq) true xs = [Some m] /\ In m xs /\ Forall (fun x => x <= m) xs.
Proof. exact max_reduce. Qed.
Print Assumptions C12_exact_max_reduce.

(* (b) Welford: after the items xs (any non-empty prefix of a stream) the scan state is (m, s, n) with
       m * n = sum of the items and s = sum of the squared deviations from m *)
Theorem C12_exact_welford_invariant : forall (sq : Qc -> Qc) (xs : list Qc),
  xs <> [] ->
  exists m s : Qc,
    fold_left (wstep (QA sq)) xs (wseed (QA sq)) = (Some m, s, zlen xs)
    /\ m * qz (zlen xs) = qsum xs
    /\ s = qsum (map (fun x => (x - m) * (x - m)) xs).
Proof. exact welford_state. Qed.
Print Assumptions C12_exact_welford_invariant.

(* sample_var l = 0 if l has fewer than two items, else  sum (x - mean l)^2 / (length l - 1) *)
Theorem C12_exact_variance_running : forall (sq : Qc -> Qc) (xs : list Qc),
  variance_run (QA sq) false xs
  = running (fun l => if (zlen l <? 2)%Z then 0
                      else qsum (map (fun x => (x - qsum l / qz (zlen l)) * (x - qsum l / qz (zlen l))) l)
                           / qz (zlen l - 1)) xs.
Proof. exact variance_running. Qed.
Print Assumptions C12_exact_variance_running.

Theorem C12_exact_variance_reduce : forall (sq : Qc -> Qc) (xs : list Qc),
  variance_run (QA sq) true xs = [sample_var xs].
Proof. exact variance_reduce. Qed.
Print Assumptions C12_exact_variance_reduce.

Theorem C12_exact_variance_lt2 : forall (sq : Qc -> Qc) (xs : list Qc),
  (length xs < 2)%nat -> variance_run (QA sq) true xs = [0].
Proof. exact variance_lt2. Qed.
Print Assumptions C12_exact_variance_lt2.

Theorem C12_exact_stddev : forall (sq : Qc -> Qc) (xs : list Qc),
  stddev_run (QA sq) false xs = running (fun l => sq (sample_var l)) xs
  /\ stddev_run (QA sq) true xs = [sq (sample_var xs)].
Proof. exact (fun sq xs => conj (stddev_running sq xs) (stddev_reduce sq xs)). Qed.
Print Assumptions C12_exact_stddev.

(* (c) formal.variance (with the repair: the list is not cleared between items) = population variance *)
Theorem C12_exact_formal_variance_running : forall (sq : Qc -> Qc) (xs : list Qc),
  fvariance_run (QA sq) false xs
  = running (fun l => if (zlen l =? 0)%Z then 0
                      else qsum (map (fun x => (x - qsum l / qz (zlen l)) * (x - qsum l / qz (zlen l))) l)
                           / qz (zlen l)) xs.
Proof. exact fvariance_running. Qed.
Print Assumptions C12_exact_formal_variance_running.

Theorem C12_exact_formal_variance_reduce : forall (sq : Qc -> Qc) (xs : list Qc),
  fvariance_run (QA sq) true xs = [pop_var xs].
Proof. exact fvariance_reduce. Qed.
Print Assumptions C12_exact_formal_variance_reduce.

Theorem C12_exact_formal_stddev : forall (sq : Qc -> Qc) (xs : list Qc),
  fstddev_run (QA sq) false xs = running (fun l => sq (pop_var l)) xs
  /\ fstddev_run (QA sq) true xs = [sq (pop_var xs)].
Proof. exact (fun sq xs => conj (fstddev_running sq xs) (fstddev_reduce sq xs)). Qed.
Print Assumptions C12_exact_formal_stddev.

(* (d) the streaming value after the last item equals the reduce value: for EVERY arithmetic A - the exact one
       and the binary64 one (FloatModel.FA h, the object of the correspondence) alike *)
Theorem C12_exact_last_running_is_reduce : forall (A : arith) (xs : list (T A)),
  xs <> [] ->
  (forall d, sum_run A true xs = [last (sum_run A false xs) d]) /\
  (forall d, mean_run A true xs = [last (mean_run A false xs) d]) /\
  (forall d, min_run A true xs = [last (min_run A false xs) d]) /\
  (forall d, max_run A true xs = [last (max_run A false xs) d]) /\
  (forall d, variance_run A true xs = [last (variance_run A false xs) d]) /\
  (forall d, stddev_run A true xs = [last (stddev_run A false xs) d]) /\
  (forall d, fvariance_run A true xs = [last (fvariance_run A false xs) d]) /\
  (forall d, fstddev_run A true xs = [last (fstddev_run A false xs) d]).
Proof. exact last_is_reduce_all. Qed.
Print Assumptions C12_exact_last_running_is_reduce.

(* (e) floating-point error bound, binary64, for `sum` only (recursive summation; Higham, Accuracy and Stability
       of Numerical Algorithms, (4.4) with (1+u)^n - 1 in place of gamma_(n-1)): for the function the
       correspondence evaluates, on float items, if no running sum overflows then
            | fl_sum - sum x_i |  <=  ((1 + u)^n - 1) * sum |x_i|,        u = u53 = 2^-53.
       FR x is the real number denoted by the float x (Flocq: B2R (Prim2B x)).  This theorem depends on the
       standard library's specification of the primitive floats (FloatAxioms) and on the axioms of Reals. *)
Theorem C12_float_sum_error_bound : forall (h : hints) (l : list Coq.Floats.PrimFloat.float),
  Forall (fun x => Coq.Floats.PrimFloat.is_finite x = true) l ->
  Forall (fun v => exists s, v = NF s /\ Coq.Floats.PrimFloat.is_finite s = true) (sum_run (FA h) false (map NF l)) ->
  exists s, sum_run (FA h) true (map NF l) = [NF s]
            /\ (Rabs (FR s - sumR (map FR l))
                <= ((1 + u53) ^ length l - 1) * sumR (map (fun x => Rabs (FR x)) l))%R.
Proof. exact float_sum_error. Qed.
Print Assumptions C12_float_sum_error_bound.

(* the same bound for EVERY streaming value of sum: the running sum after the i-th item against the first i items *)
Theorem C12_float_sum_running_error_bound : forall (h : hints) (l : list Coq.Floats.PrimFloat.float),
  Forall (fun x => Coq.Floats.PrimFloat.is_finite x = true) l ->
  Forall (fun x => Coq.Floats.PrimFloat.is_finite x = true) (scan_states Coq.Floats.PrimFloat.add Coq.Floats.PrimFloat.zero l) ->
  Forall2 (fun (v : num) (i : nat) =>
             exists s, v = NF s
               /\ (Rabs (FR s - sumR (map FR (firstn i l)))
                   <= ((1 + u53) ^ i - 1) * sumR (map (fun x => Rabs (FR x)) (firstn i l)))%R)
          (sum_run (FA h) false (map NF l)) (seq 1 (length l)).
Proof. exact float_sum_running_error. Qed.
Print Assumptions C12_float_sum_running_error_bound.

(* (e') the same for `mean`: one more rounding for the division by the count (exact as a float below 2^53); the
        quotient may be subnormal, hence the absolute term eta64 = 2^-1075:
            | fl_mean - (sum x_i) / n |  <=  ((1 + u)^(n+1) - 1) * (sum |x_i|) / n  +  eta64
        at completion (reduce) and for EVERY streaming value (the mean after the i-th item, against the first i items). *)
Theorem C12_float_mean_error_bound : forall (h : hints) (l : list Coq.Floats.PrimFloat.float),
  l <> [] -> (Z.of_nat (length l) < 2 ^ 53)%Z ->
  Forall (fun x => Coq.Floats.PrimFloat.is_finite x = true) l ->
  Forall (fun x => Coq.Floats.PrimFloat.is_finite x = true) (scan_states Coq.Floats.PrimFloat.add Coq.Floats.PrimFloat.zero l) ->
  Coq.Floats.PrimFloat.is_finite
    (Coq.Floats.PrimFloat.div (fold_left Coq.Floats.PrimFloat.add l Coq.Floats.PrimFloat.zero) (f_of_Z (Z.of_nat (length l)))) = true ->
  exists m, mean_run (FA h) true (map NF l) = [Some (NF m)]
            /\ (Rabs (FR m - sumR (map FR l) / INR (length l))
                <= ((1 + u53) ^ S (length l) - 1) * (sumR (map (fun x => Rabs (FR x)) l) / INR (length l)) + eta64)%R.
Proof. exact float_mean_error. Qed.
Print Assumptions C12_float_mean_error_bound.
Theorem C12_float_mean_running_error_bound : forall (h : hints) (l : list Coq.Floats.PrimFloat.float),
  (Z.of_nat (length l) < 2 ^ 53)%Z ->
  Forall (fun x => Coq.Floats.PrimFloat.is_finite x = true) l ->
  Forall (fun x => Coq.Floats.PrimFloat.is_finite x = true) (scan_states Coq.Floats.PrimFloat.add Coq.Floats.PrimFloat.zero l) ->
  Forall (fun i => Coq.Floats.PrimFloat.is_finite
                     (Coq.Floats.PrimFloat.div (fold_left Coq.Floats.PrimFloat.add (firstn i l) Coq.Floats.PrimFloat.zero)
                                               (f_of_Z (Z.of_nat i))) = true) (seq 1 (length l)) ->
  Forall2 (fun (v : option num) (i : nat) =>
             exists m, v = Some (NF m)
               /\ (Rabs (FR m - sumR (map FR (firstn i l)) / INR i)
                   <= ((1 + u53) ^ S i - 1) * (sumR (map (fun x => Rabs (FR x)) (firstn i l)) / INR i) + eta64)%R)
          (mean_run (FA h) false (map NF l)) (seq 1 (length l)).
Proof. exact float_mean_running_error. Qed.
Print Assumptions C12_float_mean_running_error_bound.
(* float(k) is exact for the counts in range *)
Theorem C12_float_count_exact : forall z : Z, (0 <= z < 2 ^ 53)%Z ->
  Coq.Floats.PrimFloat.is_finite (f_of_Z z) = true /\ FR (f_of_Z z) = IZR z.
Proof. exact f_of_Z_exact. Qed.
Print Assumptions C12_float_count_exact.
(* (e'') min and max involve no rounding: on finite binary64 items the emitted value is one of the items and
         bounds every item (as real numbers) *)
Theorem C12_float_max_exact : forall (h : hints) (l : list Coq.Floats.PrimFloat.float),
  l <> [] -> Forall (fun x => Coq.Floats.PrimFloat.is_finite x = true) l ->
  exists m, max_run (FA h) true (map NF l) = [Some (NF m)] /\ In m l /\ Forall (fun x => (FR x <= FR m)%R) l.
Proof. exact float_max_exact. Qed.
Print Assumptions C12_float_max_exact.
Theorem C12_float_min_exact : forall (h : hints) (l : list Coq.Floats.PrimFloat.float),
  l <> [] -> Forall (fun x => Coq.Floats.PrimFloat.is_finite x = true) l ->
  exists m, min_run (FA h) true (map NF l) = [Some (NF m)] /\ In m l /\ Forall (fun x => (FR m <= FR x)%R) l.
Proof. exact float_min_exact. Qed.
Print Assumptions C12_float_min_exact.

(* (f) the Welford variance / stddev in binary64 (the functions the correspondence evaluates):
     - NEVER negative: whatever the finite data, as long as the Welford states (mean, sum of squared deviations)
       stay finite, every emitted variance is a finite float >= 0, at every streaming position and at completion;
       hence math.sqrt in stddev is never given a negative number.  (The running mean moves towards the new item
       and never past it, so both deviations (x - m_old) and (x - m_new) have the same sign, in floating point.)
     - EXACTLY zero on a sequence of equal items, whatever their common value (no cancellation residue);
     - fewer than two items give the float literal 0.0 in every arithmetic. *)
Theorem C12_float_variance_never_negative : forall (h : hints) (l : list Coq.Floats.PrimFloat.float) (reduce : bool),
  Forall (fun x => Coq.Floats.PrimFloat.is_finite x = true) l -> (Z.of_nat (length l) < 2 ^ 53)%Z ->
  Forall state_fin (scan_states (wstep (FA h)) (wseed (FA h)) (map NF l)) ->
  Forall (fun v => exists f, v = NF f /\ Coq.Floats.PrimFloat.is_finite f = true /\ (0 <= FR f)%R)
         (variance_run (FA h) reduce (map NF l)).
Proof. exact float_variance_nonneg. Qed.
Print Assumptions C12_float_variance_never_negative.
Theorem C12_float_stddev_sqrt_defined : forall (h : hints) (l : list Coq.Floats.PrimFloat.float) (reduce : bool),
  Forall (fun x => Coq.Floats.PrimFloat.is_finite x = true) l -> (Z.of_nat (length l) < 2 ^ 53)%Z ->
  Forall state_fin (scan_states (wstep (FA h)) (wseed (FA h)) (map NF l)) ->
  Forall (fun v => exists f, v = NF f /\ Coq.Floats.PrimFloat.is_finite f = true /\ (0 <= FR f)%R)
         (stddev_run (FA h) reduce (map NF l)).
Proof. exact float_stddev_defined. Qed.
Print Assumptions C12_float_stddev_sqrt_defined.
Theorem C12_float_variance_of_equal_items_is_zero : forall (h : hints) (c : Coq.Floats.PrimFloat.float)
    (l : list Coq.Floats.PrimFloat.float) (reduce : bool),
  Forall (fun x => Coq.Floats.PrimFloat.is_finite x = true /\ FR x = FR c) l -> (Z.of_nat (length l) < 2 ^ 53)%Z ->
  Forall (fun v => exists f, v = NF f /\ Coq.Floats.PrimFloat.is_finite f = true /\ FR f = 0%R) (variance_run (FA h) reduce (map NF l))
  /\ Forall (fun v => exists f, v = NF f /\ Coq.Floats.PrimFloat.is_finite f = true /\ FR f = 0%R) (stddev_run (FA h) reduce (map NF l)).
Proof. exact (fun h c l r H B => conj (float_variance_constant h c l r H B) (float_stddev_constant h c l r H B)). Qed.
Print Assumptions C12_float_variance_of_equal_items_is_zero.
Theorem C12_variance_of_fewer_than_two_items : forall (A : arith) (reduce : bool) (xs : list (T A)),
  (length xs < 2)%nat -> Forall (fun v => v = fzero A) (variance_run A reduce xs).
Proof. exact variance_lt2_any. Qed.
Print Assumptions C12_variance_of_fewer_than_two_items.
(* the hypotheses are satisfiable: finite data whose Welford states are finite *)
Example C12_float_hypotheses_hold :
  Forall (fun x => Coq.Floats.PrimFloat.is_finite x = true) [f_of_Z 1; f_of_Z 3; f_of_Z 2; Coq.Floats.FloatOps.Z.ldexp (f_of_Z 1) 500]
  /\ Forall state_fin (scan_states (wstep (FA [])) (wseed (FA [])) (map NF [f_of_Z 1; f_of_Z 3; f_of_Z 2; Coq.Floats.FloatOps.Z.ldexp (f_of_Z 1) 500])).
Proof.
  split; [repeat constructor|].
  set (sts := scan_states _ _ _). vm_compute in sts. subst sts.
  repeat (constructor; [split; [eexists; split; reflexivity|reflexivity]|]). constructor.
Qed.

(* (g) the MAGNITUDE of the error of the Welford variance in binary64 (the function the correspondence evaluates).
       Data: finite floats X_1..X_n in [lo, hi], |X_i| <= A, hi - lo <= Rr; Welford states finite; n < 2^53.
       Exact quantities over R:  meanR l = (sum l) / n,  ssdR l = sum (x - meanR l)^2  (WelfordReal.v, where the
       Welford recurrences  mean' = mean + (x - mean)/k,  ssd' = ssd + (x - mean)(x - mean')  are proved).
       With u = 2^-53, eta = 2^-1075:
         eps    = u A + 2 u Rr + eta                         error added to the running mean per item,
         Eb k   = (k-1) eps                                  |M_k - mean_k| <= Eb k,
         g k    = 4 u Rr^2 + eta + Rr (Eb k + Eb (k+1)) + Eb k Eb (k+1),
         Fb 1   = 0,  Fb (k+1) = (Fb k + g k)(1 + u) + u ssd_(k+1)      |S_k - ssd_k| <= Fb k,
       and every emitted variance v_k (k >= 2; streaming and at completion) satisfies
         | v_k - ssd_k/(k-1) |  <=  Fb k/(k-1) (1 + u) + u ssd_k/(k-1) + eta,
       with the closed form  Fb k <= (1+u)^(k-1) (k-1) (g (k-1) + u ssd_k): the relative error is proportional to u,
       to the count k and to the conditioning of the data (A Rr / variance, Rr^2 / variance). *)
Theorem C12_float_welford_state_error : forall (h : hints) (l : list Coq.Floats.PrimFloat.float) (lo hi A Rr : R),
  (- A <= lo)%R -> (hi <= A)%R -> (hi - lo <= Rr)%R ->
  Forall (fun x => Coq.Floats.PrimFloat.is_finite x = true) l -> Forall (fun x => (lo <= FR x <= hi)%R) l ->
  (Z.of_nat (length l) < 2 ^ 53)%Z ->
  Forall state_fin (scan_states (wstep (FA h)) (wseed (FA h)) (map NF l)) ->
  Forall2 (fun (st : wstate (FA h)) (k : nat) =>
             exists m s, st = (Some (NF m), s, Z.of_nat k) /\ (lo <= FR m <= hi)%R /\ (0 <= FR (to_f s))%R /\
               (Rabs (FR m - meanR (firstn k (map FR l))) <= wEb A Rr k)%R /\
               (Rabs (FR (to_f s) - ssdR (firstn k (map FR l))) <= wFb A Rr (map FR l) k)%R)
          (scan_states (wstep (FA h)) (wseed (FA h)) (map NF l)) (seq 1 (length l)).
Proof. exact welford_state_error. Qed.
Print Assumptions C12_float_welford_state_error.
Theorem C12_float_variance_error_bound : forall (h : hints) (l : list Coq.Floats.PrimFloat.float) (lo hi A Rr : R),
  (- A <= lo)%R -> (hi <= A)%R -> (hi - lo <= Rr)%R ->
  Forall (fun x => Coq.Floats.PrimFloat.is_finite x = true) l -> Forall (fun x => (lo <= FR x <= hi)%R) l ->
  (Z.of_nat (length l) < 2 ^ 53)%Z ->
  Forall state_fin (scan_states (wstep (FA h)) (wseed (FA h)) (map NF l)) ->
  Forall2 (fun (v : num) (k : nat) =>
             exists f, v = NF f /\ Coq.Floats.PrimFloat.is_finite f = true /\ (0 <= FR f)%R /\
               ((2 <= k)%nat ->
                (Rabs (FR f - ssdR (firstn k (map FR l)) / INR (k - 1))
                 <= wFb A Rr (map FR l) k / INR (k - 1) * (1 + u53)
                    + u53 * (ssdR (firstn k (map FR l)) / INR (k - 1)) + eta64)%R))
          (variance_run (FA h) false (map NF l)) (seq 1 (length l)).
Proof. exact welford_variance_error. Qed.
Print Assumptions C12_float_variance_error_bound.
Theorem C12_float_variance_reduce_error_bound : forall (h : hints) (l : list Coq.Floats.PrimFloat.float) (lo hi A Rr : R),
  (- A <= lo)%R -> (hi <= A)%R -> (hi - lo <= Rr)%R -> l <> [] ->
  Forall (fun x => Coq.Floats.PrimFloat.is_finite x = true) l -> Forall (fun x => (lo <= FR x <= hi)%R) l ->
  (Z.of_nat (length l) < 2 ^ 53)%Z ->
  Forall state_fin (scan_states (wstep (FA h)) (wseed (FA h)) (map NF l)) ->
  exists f, variance_run (FA h) true (map NF l) = [NF f] /\ Coq.Floats.PrimFloat.is_finite f = true /\ (0 <= FR f)%R /\
    ((2 <= length l)%nat ->
     (Rabs (FR f - ssdR (map FR l) / INR (length l - 1))
      <= wFb A Rr (map FR l) (length l) / INR (length l - 1) * (1 + u53)
         + u53 * (ssdR (map FR l) / INR (length l - 1)) + eta64)%R).
Proof. exact welford_variance_reduce_error. Qed.
Print Assumptions C12_float_variance_reduce_error_bound.
Theorem C12_float_variance_error_closed_form : forall (A Rr : R) (xs : list R) (k : nat),
  (0 <= A)%R -> (0 <= Rr)%R -> (1 <= k <= length xs)%nat ->
  (wFb A Rr xs k <= (1 + u53) ^ (k - 1) * (INR (k - 1) * (wg A Rr (k - 1) + u53 * ssdR (firstn k xs))))%R.
Proof. exact wFb_closed. Qed.
Print Assumptions C12_float_variance_error_closed_form.
Theorem C12_float_variance_error_bound_closed : forall (h : hints) (l : list Coq.Floats.PrimFloat.float) (lo hi A Rr : R),
  (- A <= lo)%R -> (hi <= A)%R -> (hi - lo <= Rr)%R ->
  Forall (fun x => Coq.Floats.PrimFloat.is_finite x = true) l -> Forall (fun x => (lo <= FR x <= hi)%R) l ->
  (Z.of_nat (length l) < 2 ^ 53)%Z ->
  Forall state_fin (scan_states (wstep (FA h)) (wseed (FA h)) (map NF l)) ->
  Forall2 (fun (v : num) (k : nat) =>
             exists f, v = NF f /\ Coq.Floats.PrimFloat.is_finite f = true /\ (0 <= FR f)%R /\
               ((2 <= k)%nat ->
                (Rabs (FR f - ssdR (firstn k (map FR l)) / INR (k - 1))
                 <= (1 + u53) ^ k * (wg A Rr (k - 1) + u53 * ssdR (firstn k (map FR l)))
                    + u53 * (ssdR (firstn k (map FR l)) / INR (k - 1)) + eta64)%R))
          (variance_run (FA h) false (map NF l)) (seq 1 (length l)).
Proof. exact welford_variance_error_closed. Qed.
Print Assumptions C12_float_variance_error_bound_closed.
(* the exact quantities are the textbook ones: the Welford recurrences over R *)
Theorem C12_exact_welford_recurrences_over_R : forall (l : list R) (x : R), (1 <= length l)%nat ->
  meanR (l ++ [x]) = (meanR l + (x - meanR l) / INR (S (length l)))%R
  /\ ssdR (l ++ [x]) = (ssdR l + (x - meanR l) * (x - meanR (l ++ [x])))%R.
Proof. exact (fun l x H => conj (meanR_snoc l x H) (ssdR_snoc l x H)). Qed.
Print Assumptions C12_exact_welford_recurrences_over_R.

(* (h) stddev = sqrt (Welford variance), one more correctly rounded operation (no underflow term: the square root of a
       positive binary64 number is never subnormal).  varR xs k = ssdR (first k of xs) / (k-1) is the exact sample
       variance, wVb the bound of (g) on the emitted variance:
         | stddev_k - sqrt (varR k) |  <=  sqrt (wVb k) (1 + u) + u sqrt (varR k)        (k >= 2; 0.0 exactly for k = 1) *)
Theorem C12_float_stddev_error_bound : forall (h : hints) (l : list Coq.Floats.PrimFloat.float) (lo hi A Rr : R),
  (- A <= lo)%R -> (hi <= A)%R -> (hi - lo <= Rr)%R ->
  Forall (fun x => Coq.Floats.PrimFloat.is_finite x = true) l -> Forall (fun x => (lo <= FR x <= hi)%R) l ->
  (Z.of_nat (length l) < 2 ^ 53)%Z ->
  Forall state_fin (scan_states (wstep (FA h)) (wseed (FA h)) (map NF l)) ->
  Forall2 (fun (v : num) (k : nat) =>
             exists g, v = NF g /\ Coq.Floats.PrimFloat.is_finite g = true /\ (0 <= FR g)%R /\
               (k = 1%nat -> g = Coq.Floats.PrimFloat.zero) /\
               ((2 <= k)%nat ->
                (Rabs (FR g - R_sqrt.sqrt (varR (map FR l) k))
                 <= R_sqrt.sqrt (wVb A Rr (map FR l) k) * (1 + u53) + u53 * R_sqrt.sqrt (varR (map FR l) k))%R))
          (stddev_run (FA h) false (map NF l)) (seq 1 (length l)).
Proof. exact welford_stddev_error. Qed.
Print Assumptions C12_float_stddev_error_bound.
Theorem C12_float_stddev_reduce_error_bound : forall (h : hints) (l : list Coq.Floats.PrimFloat.float) (lo hi A Rr : R),
  (- A <= lo)%R -> (hi <= A)%R -> (hi - lo <= Rr)%R -> l <> [] ->
  Forall (fun x => Coq.Floats.PrimFloat.is_finite x = true) l -> Forall (fun x => (lo <= FR x <= hi)%R) l ->
  (Z.of_nat (length l) < 2 ^ 53)%Z ->
  Forall state_fin (scan_states (wstep (FA h)) (wseed (FA h)) (map NF l)) ->
  exists g, stddev_run (FA h) true (map NF l) = [NF g] /\ Coq.Floats.PrimFloat.is_finite g = true /\ (0 <= FR g)%R /\
    (length l = 1%nat -> g = Coq.Floats.PrimFloat.zero) /\
    ((2 <= length l)%nat ->
     (Rabs (FR g - R_sqrt.sqrt (varR (map FR l) (length l)))
      <= R_sqrt.sqrt (wVb A Rr (map FR l) (length l)) * (1 + u53) + u53 * R_sqrt.sqrt (varR (map FR l) (length l)))%R).
Proof. exact welford_stddev_reduce_error. Qed.
Print Assumptions C12_float_stddev_reduce_error_bound.

(* (i) the TWO-PASS formal.variance / formal.stddev in binary64 (the functions the correspondence evaluates), for every
       hint list h (a hinted x**2 is the rounded product or one of its two neighbours: |fpow2 - d^2| <= 4u d^2 + 4 eta).
       CPython's builtin sum (Neumaier compensated summation, transliterated in FloatModel.sum_float) is analysed through
       Fast2Sum exactness (Flocq Pff): the compensation term of each step IS the rounding error of that step, so
         sum x = f_n + sum e_i exactly,  c_n = the recursive float sum of the e_i,  result = fl(f_n + c_n):
         | pysum - sum x |  <=  pysum_bound (n-1) |sum x| (sum |x|)  =  u |sum x| + (1+u) ((1+u)^(n-1) - 1) u (n-1) (1+u)^(n-1) sum |x|
       - a second-order bound.  Then mean = pysum / n, deviations, squares, pysum, / n against the exact population
       variance popvarR = sqdev (meanR xs) xs / n, with the data in [lo, hi], hi - lo <= Rr; fvar_fin / fstd_fin are the
       executable predicates "the named intermediate floats are finite". *)
Theorem C12_float_builtin_sum_error_bound : forall (l : list Coq.Floats.PrimFloat.float),
  l <> [] -> Forall (fun x => Coq.Floats.PrimFloat.is_finite x = true) l -> pysum_fin l = true ->
  exists s, npysum (map NF l) = NF s /\ Coq.Floats.PrimFloat.is_finite s = true /\
    (Rabs (FR s - sumR (map FR l))
     <= pysum_bound (length l - 1) (Rabs (sumR (map FR l))) (sumR (map (fun x => Rabs (FR x)) l)))%R.
Proof. exact npysum_error. Qed.
Print Assumptions C12_float_builtin_sum_error_bound.
Theorem C12_float_formal_variance_reduce_error_bound : forall (h : hints) (l : list Coq.Floats.PrimFloat.float) (lo hi Rr : R),
  l <> [] -> Forall (fun x => Coq.Floats.PrimFloat.is_finite x = true) l -> Forall (fun x => (lo <= FR x <= hi)%R) l ->
  (hi - lo <= Rr)%R -> (Z.of_nat (length l) < 2 ^ 53)%Z -> fvar_fin h l = true ->
  exists f, fvariance_run (FA h) true (map NF l) = [NF f] /\ Coq.Floats.PrimFloat.is_finite f = true /\
    (Rabs (FR f - popvarR (map FR l)) <= fvar_bound Rr (map FR l))%R.
Proof. exact fvariance_reduce_error. Qed.
Print Assumptions C12_float_formal_variance_reduce_error_bound.
Theorem C12_float_formal_variance_error_bound : forall (h : hints) (l : list Coq.Floats.PrimFloat.float) (lo hi Rr : R),
  Forall (fun x => Coq.Floats.PrimFloat.is_finite x = true) l -> Forall (fun x => (lo <= FR x <= hi)%R) l -> (hi - lo <= Rr)%R ->
  (Z.of_nat (length l) < 2 ^ 53)%Z ->
  Forall (fun k => fvar_fin h (firstn k l) = true) (seq 1 (length l)) ->
  Forall2 (fun (v : num) (k : nat) =>
             exists f, v = NF f /\ Coq.Floats.PrimFloat.is_finite f = true /\
               (Rabs (FR f - popvarR (firstn k (map FR l))) <= fvar_bound Rr (firstn k (map FR l)))%R)
          (fvariance_run (FA h) false (map NF l)) (seq 1 (length l)).
Proof. exact fvariance_error. Qed.
Print Assumptions C12_float_formal_variance_error_bound.
Theorem C12_float_formal_stddev_reduce_error_bound : forall (h : hints) (l : list Coq.Floats.PrimFloat.float) (lo hi Rr : R),
  l <> [] -> Forall (fun x => Coq.Floats.PrimFloat.is_finite x = true) l -> Forall (fun x => (lo <= FR x <= hi)%R) l ->
  (hi - lo <= Rr)%R -> (Z.of_nat (length l) < 2 ^ 53)%Z -> fstd_fin h l = true ->
  exists g, fstddev_run (FA h) true (map NF l) = [NF g] /\ Coq.Floats.PrimFloat.is_finite g = true /\ (0 <= FR g)%R /\
    (Rabs (FR g - R_sqrt.sqrt (popvarR (map FR l)))
     <= R_sqrt.sqrt (fvar_bound Rr (map FR l)) * (1 + u53) + u53 * R_sqrt.sqrt (popvarR (map FR l)))%R.
Proof. exact fstddev_reduce_error. Qed.
Print Assumptions C12_float_formal_stddev_reduce_error_bound.
Theorem C12_float_formal_stddev_error_bound : forall (h : hints) (l : list Coq.Floats.PrimFloat.float) (lo hi Rr : R),
  Forall (fun x => Coq.Floats.PrimFloat.is_finite x = true) l -> Forall (fun x => (lo <= FR x <= hi)%R) l -> (hi - lo <= Rr)%R ->
  (Z.of_nat (length l) < 2 ^ 53)%Z ->
  Forall (fun k => fstd_fin h (firstn k l) = true) (seq 1 (length l)) ->
  Forall2 (fun (v : num) (k : nat) =>
             exists g, v = NF g /\ Coq.Floats.PrimFloat.is_finite g = true /\ (0 <= FR g)%R /\
               (Rabs (FR g - R_sqrt.sqrt (popvarR (firstn k (map FR l))))
                <= R_sqrt.sqrt (fvar_bound Rr (firstn k (map FR l))) * (1 + u53)
                   + u53 * R_sqrt.sqrt (popvarR (firstn k (map FR l))))%R)
          (fstddev_run (FA h) false (map NF l)) (seq 1 (length l)).
Proof. exact fstddev_error. Qed.
Print Assumptions C12_float_formal_stddev_error_bound.
(* the finiteness predicates are executable and hold on concrete data *)
Example C12_float_formal_hypotheses_hold :
  fstd_fin [] [f_of_Z 1; f_of_Z 2; f_of_Z 4; Coq.Floats.FloatOps.Z.ldexp (f_of_Z 3602879701896397) (-55)] = true.
Proof. vm_compute. reflexivity. Qed.

(* (j) int items mixed with floats: under the model's assumption on int magnitudes (|int| < 2^53, also for the int partial sums
       of mean's leading int run and for the difference of the first two items of a variance run), a run on a mixed list follows,
       BIT FOR BIT, the run on the floats obtained by converting every int (float(int) is exact there, int + int and int - int
       agree with the float operations, signed zeros included).  sum needs no condition at all (its seed is the float 0.0).
       Hence the binary64 bounds above hold for mixed lists (stated for the reduce values; the streaming ones follow the same
       way).  The two-pass formal.variance is NOT covered: CPython's builtin sum adds an int item uncompensated after the first
       float, so converting the ints changes the algorithm. *)
Theorem C12_mixed_items_sum : forall (h : hints) (reduce : bool) (l : list num),
  sum_run (FA h) reduce l = sum_run (FA h) reduce (map to_fl l).
Proof. exact mixed_sum_run. Qed.
Print Assumptions C12_mixed_items_sum.
Theorem C12_mixed_items_mean : forall (h : hints) (reduce : bool) (l : list num), int_prefix_ok 0 l ->
  mean_run (FA h) reduce l = mean_run (FA h) reduce (map to_fl l).
Proof. exact mixed_mean_run. Qed.
Print Assumptions C12_mixed_items_mean.
Theorem C12_mixed_items_min_max : forall (h : hints) (reduce : bool) (l : list num), Forall small_num l ->
  Forall2 oveq (min_run (FA h) reduce l) (min_run (FA h) reduce (map to_fl l))
  /\ Forall2 oveq (max_run (FA h) reduce l) (max_run (FA h) reduce (map to_fl l)).
Proof. exact (fun h r l H => conj (mixed_min_run h r l H) (mixed_max_run h r l H)). Qed.
Print Assumptions C12_mixed_items_min_max.
Theorem C12_mixed_items_variance_stddev : forall (h : hints) (reduce : bool) (l : list num), var_side l ->
  variance_run (FA h) reduce l = variance_run (FA h) reduce (map to_fl l)
  /\ stddev_run (FA h) reduce l = stddev_run (FA h) reduce (map to_fl l).
Proof. exact (fun h r l H => conj (mixed_variance_run h r l H) (mixed_stddev_run h r l H)). Qed.
Print Assumptions C12_mixed_items_variance_stddev.
Theorem C12_mixed_items_mean_error_bound : forall (h : hints) (l : list num),
  l <> [] -> (Z.of_nat (length l) < 2 ^ 53)%Z -> int_prefix_ok 0 l ->
  Forall (fun x => Coq.Floats.PrimFloat.is_finite x = true) (map to_f l) ->
  Forall (fun x => Coq.Floats.PrimFloat.is_finite x = true) (scan_states Coq.Floats.PrimFloat.add Coq.Floats.PrimFloat.zero (map to_f l)) ->
  Coq.Floats.PrimFloat.is_finite (Coq.Floats.PrimFloat.div (fold_left Coq.Floats.PrimFloat.add (map to_f l) Coq.Floats.PrimFloat.zero)
                                                            (f_of_Z (Z.of_nat (length l)))) = true ->
  exists m, mean_run (FA h) true l = [Some (NF m)]
            /\ (Rabs (FR m - sumR (map FR (map to_f l)) / INR (length l))
                <= ((1 + u53) ^ S (length l) - 1)
                   * (sumR (map (fun x => Rabs (FR x)) (map to_f l)) / INR (length l)) + eta64)%R.
Proof. exact mixed_mean_error. Qed.
Print Assumptions C12_mixed_items_mean_error_bound.
Theorem C12_mixed_items_variance_error_bound : forall (h : hints) (l : list num) (lo hi A Rr : R),
  (- A <= lo)%R -> (hi <= A)%R -> (hi - lo <= Rr)%R -> l <> [] -> var_side l ->
  Forall (fun x => Coq.Floats.PrimFloat.is_finite x = true) (map to_f l) -> Forall (fun x => (lo <= FR x <= hi)%R) (map to_f l) ->
  (Z.of_nat (length l) < 2 ^ 53)%Z ->
  Forall state_fin (scan_states (wstep (FA h)) (wseed (FA h)) (map to_fl l)) ->
  exists f, variance_run (FA h) true l = [NF f] /\ Coq.Floats.PrimFloat.is_finite f = true /\ (0 <= FR f)%R /\
    ((2 <= length l)%nat ->
     (Rabs (FR f - ssdR (map FR (map to_f l)) / INR (length l - 1))
      <= wFb A Rr (map FR (map to_f l)) (length l) / INR (length l - 1) * (1 + u53)
         + u53 * (ssdR (map FR (map to_f l)) / INR (length l - 1)) + eta64)%R).
Proof. exact mixed_variance_reduce_error. Qed.
Print Assumptions C12_mixed_items_variance_error_bound.

(* the two-pass formal.variance / formal.stddev on int items: all-int lists reduce bit for bit to the float runs (so the
   C12_float_formal bounds transfer); on lists that really mix ints and floats the reduction is FALSE of the faithful
   model (and of the code: the two witnesses below print 1.25 / 0.75 and 0.75 / 0.25 in CPython too), because builtin
   sum adds an int exactly before the first float and without compensation after it; the second pass never differs *)
Theorem C12_mixed_formal_ints : forall (h : hints) (reduce : bool) (zs : list Z), int_prefix_ok 0 (map NI zs) ->
  fvariance_run (FA h) reduce (map NI zs) = fvariance_run (FA h) reduce (map to_fl (map NI zs))
  /\ fstddev_run (FA h) reduce (map NI zs) = fstddev_run (FA h) reduce (map to_fl (map NI zs)).
Proof. exact (fun h r zs H => conj (mixed_fvariance_run_ints h r zs H) (mixed_fstddev_run_ints h r zs H)). Qed.
Print Assumptions C12_mixed_formal_ints.
Theorem C12_mixed_formal_second_pass : forall (h : hints) (l : list num),
  moment1 (FA h) l = moment1 (FA h) (map to_fl l) -> fvar_out (FA h) l = fvar_out (FA h) (map to_fl l).
Proof. exact mixed_fvar_out_of_mean. Qed.
Print Assumptions C12_mixed_formal_second_pass.
Theorem C12_mixed_formal_ints_variance_error_bound : forall (h : hints) (zs : list Z) (lo hi Rr : R),
  zs <> [] -> int_prefix_ok 0 (map NI zs) -> Forall (fun z => (lo <= IZR z <= hi)%R) zs -> (hi - lo <= Rr)%R ->
  (Z.of_nat (length zs) < 2 ^ 53)%Z -> fvar_fin h (map f_of_Z zs) = true ->
  exists f, fvariance_run (FA h) true (map NI zs) = [NF f] /\ ffin f /\
    (Rabs (FR f - popvarR (map IZR zs)) <= fvar_bound Rr (map IZR zs))%R.
Proof. exact mixed_fvariance_ints_error. Qed.
Print Assumptions C12_mixed_formal_ints_variance_error_bound.
Theorem C12_mixed_formal_ints_stddev_error_bound : forall (h : hints) (zs : list Z) (lo hi Rr : R),
  zs <> [] -> int_prefix_ok 0 (map NI zs) -> Forall (fun z => (lo <= IZR z <= hi)%R) zs -> (hi - lo <= Rr)%R ->
  (Z.of_nat (length zs) < 2 ^ 53)%Z -> fstd_fin h (map f_of_Z zs) = true ->
  exists g, fstddev_run (FA h) true (map NI zs) = [NF g] /\ ffin g /\ (0 <= FR g)%R /\
    (Rabs (FR g - rsqrt (popvarR (map IZR zs)))
     <= rsqrt (fvar_bound Rr (map IZR zs)) * (1 + u53) + u53 * rsqrt (popvarR (map IZR zs)))%R.
Proof. exact mixed_fstddev_ints_error. Qed.
Print Assumptions C12_mixed_formal_ints_stddev_error_bound.
Theorem C12_mixed_formal_reduction_refuted :
  (Forall small_num witness_after /\
   fvariance_run (FA []) true witness_after <> fvariance_run (FA []) true (map to_fl witness_after))
  /\ (Forall small_num witness_before /\
   fvariance_run (FA []) true witness_before <> fvariance_run (FA []) true (map to_fl witness_before)).
Proof.
  exact (conj (conj witness_after_small mixed_formal_refuted_int_after_float)
              (conj witness_before_small mixed_formal_refuted_int_before_float)).
Qed.
Print Assumptions C12_mixed_formal_reduction_refuted.

(* ... and the direct bound on lists that really mix ints and floats: builtin sum adds the leading ints exactly, the first
   float and every later int with one plain rounding (ki of them), every later float compensated (kf of them):
   |sum_hat - S| <= u|S| + (1+u)(((1+u)^n - 1) u kf (1+u)^n T + u ki (1+u)^n T), T = sum|x|; the second pass is the float
   analysis with that larger mean error (fvar_bound_em) *)
Theorem C12_mixed_formal_first_pass_error_bound : forall (l : list num),
  int_prefix_ok 0 l -> Forall item_ok l -> msum_fin l = true ->
  (Rabs (FR (to_f (npysum l)) - sumR (map nval l)) <= msum_bound l)%R.
Proof. exact mixed_pysum_error. Qed.
Print Assumptions C12_mixed_formal_first_pass_error_bound.
Theorem C12_mixed_formal_variance_error_bound : forall (h : hints) (l : list num) (lo hi Rr : R),
  l <> [] -> int_prefix_ok 0 l -> Forall item_ok l -> Forall (fun n => (lo <= nval n <= hi)%R) l -> (hi - lo <= Rr)%R ->
  (Z.of_nat (length l) < 2 ^ 53)%Z -> mfvar_fin h l = true ->
  exists f, fvariance_run (FA h) true l = [NF f] /\ ffin f /\
    (Rabs (FR f - popvarR (map nval l)) <= fvar_bound_em Rr (mmean_bound l) (map nval l))%R.
Proof. exact mixed_fvariance_reduce_error. Qed.
Print Assumptions C12_mixed_formal_variance_error_bound.
Theorem C12_mixed_formal_variance_error_bound_streaming : forall (h : hints) (l : list num) (lo hi Rr : R),
  int_prefix_ok 0 l -> Forall item_ok l -> Forall (fun n => (lo <= nval n <= hi)%R) l -> (hi - lo <= Rr)%R ->
  (Z.of_nat (length l) < 2 ^ 53)%Z ->
  Forall (fun k => mfvar_fin h (firstn k l) = true) (seq 1 (length l)) ->
  Forall2 (fun (v : num) (k : nat) =>
             exists f, v = NF f /\ ffin f /\
               (Rabs (FR f - popvarR (map nval (firstn k l)))
                <= fvar_bound_em Rr (mmean_bound (firstn k l)) (map nval (firstn k l)))%R)
          (fvariance_run (FA h) false l) (seq 1 (length l)).
Proof. exact mixed_fvariance_stream_error. Qed.
Print Assumptions C12_mixed_formal_variance_error_bound_streaming.
Theorem C12_mixed_formal_stddev_error_bound : forall (h : hints) (l : list num) (lo hi Rr : R),
  l <> [] -> int_prefix_ok 0 l -> Forall item_ok l -> Forall (fun n => (lo <= nval n <= hi)%R) l -> (hi - lo <= Rr)%R ->
  (Z.of_nat (length l) < 2 ^ 53)%Z -> mfstd_fin h l = true ->
  exists g, fstddev_run (FA h) true l = [NF g] /\ ffin g /\ (0 <= FR g)%R /\
    (Rabs (FR g - rsqrt (popvarR (map nval l)))
     <= rsqrt (fvar_bound_em Rr (mmean_bound l) (map nval l)) * (1 + u53) + u53 * rsqrt (popvarR (map nval l)))%R.
Proof. exact mixed_fstddev_reduce_error. Qed.
Print Assumptions C12_mixed_formal_stddev_error_bound.
Theorem C12_mixed_formal_stddev_error_bound_streaming : forall (h : hints) (l : list num) (lo hi Rr : R),
  int_prefix_ok 0 l -> Forall item_ok l -> Forall (fun n => (lo <= nval n <= hi)%R) l -> (hi - lo <= Rr)%R ->
  (Z.of_nat (length l) < 2 ^ 53)%Z ->
  Forall (fun k => mfstd_fin h (firstn k l) = true) (seq 1 (length l)) ->
  Forall2 (fun (v : num) (k : nat) =>
             exists g, v = NF g /\ ffin g /\ (0 <= FR g)%R /\
               (Rabs (FR g - rsqrt (popvarR (map nval (firstn k l))))
                <= rsqrt (fvar_bound_em Rr (mmean_bound (firstn k l)) (map nval (firstn k l))) * (1 + u53)
                   + u53 * rsqrt (popvarR (map nval (firstn k l))))%R)
          (fstddev_run (FA h) false l) (seq 1 (length l)).
Proof. exact mixed_fstddev_stream_error. Qed.
Print Assumptions C12_mixed_formal_stddev_error_bound_streaming.
(* the hypotheses are satisfiable: the refutation witness with the int after the floats, and an interleaved list *)
Example C12_mixed_formal_hyps_example :
  (int_prefix_ok 0 witness_after /\ Forall item_ok witness_after /\ mfstd_fin [] witness_after = true)
  /\ (int_prefix_ok 0 mixed_example /\ Forall item_ok mixed_example /\ mfstd_fin [] mixed_example = true).
Proof.
  exact (conj (conj (proj1 witness_after_hyps) (conj (proj1 (proj2 witness_after_hyps)) (proj1 (proj2 (proj2 witness_after_hyps)))))
              (conj (proj1 mixed_example_hyps) (conj (proj1 (proj2 mixed_example_hyps)) (proj1 (proj2 (proj2 mixed_example_hyps)))))).
Qed.

(* ---------------------------------------------------------------------------------------------
   THE LITERAL SHAPE OF THE PROPERTY: relative error <= C * n * u * kappa (+ an absolute underflow term), kappa an explicitly
   defined condition number of the data, for every aggregate at completion, under n * u <= 1/16 (implied by n <= 10^4 and by
   n < 2^40).  Corollaries of the bounds above (RelativeFormProofs.v):
     kappa_sum xs       = sum |x| / |sum x|                         (sum, mean)
     kappa_var A R var  = 1 + (R^2 + R m + m^2) / var, m = A + 2R + 2^-1022      (Welford variance / stddev; |x| <= A, spread <= R)
     kappa_fvar R xs    = 1 + (R^2 + R m + m^2) / popvar, m = 3 mean|x| + 2^-1022 (two-pass variance / stddev)
   min / max are exact.
   --------------------------------------------------------------------------------------------- *)
Theorem C12_relative_count_side_condition : forall n : nat,
  ((Z.of_nat n <= 10000)%Z -> (INR n * u53 <= / 16)%R) /\ ((Z.of_nat n < 2 ^ 40)%Z -> (INR n * u53 <= / 16)%R).
Proof. exact (fun n => conj (count_small_10000 n) (count_small_pow40 n)). Qed.
Print Assumptions C12_relative_count_side_condition.
Theorem C12_relative_sum : forall (h : hints) (l : list pfloat),
  Forall ffin l ->
  Forall (fun v => exists s, v = NF s /\ ffin s) (sum_run (FA h) false (map NF l)) ->
  (INR (length l) * u53 <= / 16)%R -> sumR (map FR l) <> 0%R ->
  exists s, sum_run (FA h) true (map NF l) = [NF s]
            /\ (Rabs (FR s - sumR (map FR l))
                <= 2 * INR (length l) * u53 * kappa_sum (map FR l) * Rabs (sumR (map FR l)))%R.
Proof. exact relform_sum. Qed.
Print Assumptions C12_relative_sum.
Theorem C12_relative_mean : forall (h : hints) (l : list pfloat),
  l <> [] -> (Z.of_nat (length l) < 2 ^ 53)%Z ->
  Forall ffin l -> Forall ffin (scan_states padd Coq.Floats.PrimFloat.zero l) ->
  ffin (Coq.Floats.PrimFloat.div (fold_left padd l Coq.Floats.PrimFloat.zero) (f_of_Z (Z.of_nat (length l)))) ->
  (INR (length l) * u53 <= / 16)%R -> sumR (map FR l) <> 0%R ->
  exists m, mean_run (FA h) true (map NF l) = [Some (NF m)]
            /\ (Rabs (FR m - meanR (map FR l))
                <= 3 * INR (length l) * u53 * kappa_sum (map FR l) * Rabs (meanR (map FR l)) + eta64)%R.
Proof. exact relform_mean. Qed.
Print Assumptions C12_relative_mean.
Theorem C12_relative_min_max : forall (h : hints) (l : list pfloat), l <> [] -> Forall ffin l ->
  (exists m, max_run (FA h) true (map NF l) = [Some (NF m)] /\ (Rabs (FR m - maxR (map FR l)) <= 0)%R)
  /\ (exists m, min_run (FA h) true (map NF l) = [Some (NF m)] /\ (Rabs (FR m - minR (map FR l)) <= 0)%R).
Proof. exact (fun h l Hne Hl => conj (relform_max h l Hne Hl) (relform_min h l Hne Hl)). Qed.
Print Assumptions C12_relative_min_max.
Theorem C12_relative_variance : forall (h : hints) (l : list pfloat) (lo hi A Rr : R),
  (- A <= lo)%R -> (hi <= A)%R -> (hi - lo <= Rr)%R ->
  Forall ffin l -> Forall (fun x => (lo <= FR x <= hi)%R) l -> (Z.of_nat (length l) < 2 ^ 53)%Z ->
  Forall state_fin (scan_states (wstep (FA h)) (wseed (FA h)) (map NF l)) ->
  (2 <= length l)%nat -> (INR (length l) * u53 <= / 16)%R ->
  (0 < ssdR (map FR l) / INR (length l - 1))%R ->
  exists f, variance_run (FA h) true (map NF l) = [NF f] /\ ffin f /\ (0 <= FR f)%R /\
    (Rabs (FR f - ssdR (map FR l) / INR (length l - 1))
     <= 5 * INR (length l) * u53 * kappa_var A Rr (ssdR (map FR l) / INR (length l - 1))
          * (ssdR (map FR l) / INR (length l - 1)) + 3 * eta64)%R.
Proof. exact relform_variance. Qed.
Print Assumptions C12_relative_variance.
Theorem C12_relative_stddev : forall (h : hints) (l : list pfloat) (lo hi A Rr : R),
  (- A <= lo)%R -> (hi <= A)%R -> (hi - lo <= Rr)%R ->
  Forall ffin l -> Forall (fun x => (lo <= FR x <= hi)%R) l -> (Z.of_nat (length l) < 2 ^ 53)%Z ->
  Forall state_fin (scan_states (wstep (FA h)) (wseed (FA h)) (map NF l)) ->
  (2 <= length l)%nat -> (INR (length l) * u53 <= / 16)%R ->
  (0 < ssdR (map FR l) / INR (length l - 1))%R ->
  exists g, stddev_run (FA h) true (map NF l) = [NF g] /\ ffin g /\
    (Rabs (FR g - rsqrt (ssdR (map FR l) / INR (length l - 1)))
     <= 7 * INR (length l) * u53 * kappa_var A Rr (ssdR (map FR l) / INR (length l - 1))
          * rsqrt (ssdR (map FR l) / INR (length l - 1))
        + 4 * eta64 / rsqrt (ssdR (map FR l) / INR (length l - 1)))%R.
Proof. exact relform_stddev. Qed.
Print Assumptions C12_relative_stddev.
Theorem C12_relative_formal_variance : forall (h : hints) (l : list pfloat) (lo hi Rr : R),
  l <> [] -> Forall ffin l -> Forall (fun x => (lo <= FR x <= hi)%R) l -> (hi - lo <= Rr)%R ->
  (Z.of_nat (length l) < 2 ^ 53)%Z -> fvar_fin h l = true ->
  (INR (length l) * u53 <= / 16)%R -> (0 < popvarR (map FR l))%R ->
  exists f, fvariance_run (FA h) true (map NF l) = [NF f] /\ ffin f /\
    (Rabs (FR f - popvarR (map FR l))
     <= 31 * INR (length l) * u53 * kappa_fvar Rr (map FR l) * popvarR (map FR l) + 7 * eta64)%R.
Proof. exact relform_fvariance. Qed.
Print Assumptions C12_relative_formal_variance.
Theorem C12_relative_formal_stddev : forall (h : hints) (l : list pfloat) (lo hi Rr : R),
  l <> [] -> Forall ffin l -> Forall (fun x => (lo <= FR x <= hi)%R) l -> (hi - lo <= Rr)%R ->
  (Z.of_nat (length l) < 2 ^ 53)%Z -> fstd_fin h l = true ->
  (INR (length l) * u53 <= / 16)%R -> (0 < popvarR (map FR l))%R ->
  exists g, fstddev_run (FA h) true (map NF l) = [NF g] /\ ffin g /\
    (Rabs (FR g - rsqrt (popvarR (map FR l)))
     <= 39 * INR (length l) * u53 * kappa_fvar Rr (map FR l) * rsqrt (popvarR (map FR l))
        + 9 * eta64 / rsqrt (popvarR (map FR l)))%R.
Proof. exact relform_fstddev. Qed.
Print Assumptions C12_relative_formal_stddev.

Theorem C12_float_unit_roundoff : u53 = (/ 2 ^ 53)%R.
Proof. exact u53_value. Qed.
Print Assumptions C12_float_unit_roundoff.

(* FULL STATEMENT OF C12 (proved except where noted): for the binary64 instance FA h, every finite float sequence xs
   without overflow, and every aggregate: the emitted value v_hat and the exact statistic v of the same numbers satisfy
   |v_hat - v| <= c * n * 2^-53 * (kappa + 1) * |v| + tiny, kappa the condition number of the data.
   PROVED above: the exact-arithmetic half for every aggregate (collected in C12_partial below), and in binary64 the
   bounds for `sum` and `mean` (completion and every streaming value), `min`/`max` (exact), and for the Welford
   `variance` its sign (never negative), its special values (equal items, fewer than two items) and the magnitude of
   its error (C12_float_variance_error_bound*, completion and every streaming value, with a closed form).
   and for `stddev` (the C12_float_stddev_error_bound theorems).
   and for the two-pass formal.variance / formal.stddev, CPython's compensated builtin sum included
   (C12_float_builtin_sum_error_bound and the C12_float_formal theorems).
   Int items mixed with floats reduce bit for bit to the float runs for sum, mean, min, max, variance and stddev (the
   C12_mixed_items theorems).  The two-pass formal.variance / formal.stddev on all-int lists reduce the same way
   (C12_mixed_formal_ints, with the error bounds transferred).  On lists that really mix ints and floats the reduction to the float run is false (CPython's builtin sum treats an int item
   after the first float differently from a float item: C12_mixed_formal_reduction_refuted, two witnesses evaluated in the
   model and replayed on the code), so that case has its own direct bound (the C12_mixed_formal error_bound theorems: the
   uncompensated int additions each cost one rounding).  With that every aggregate has its binary64 bound on float, int and
   mixed items, under the stated magnitude and finiteness side conditions (ints below 2^53 in magnitude, leading int partial
   sums too, no overflow).  The C12_relative theorems put every completion-value bound on float lists
   into the literal shape C * n * u * kappa * |v| (+ underflow term) with explicit condition numbers.  The bounds are a-priori
   bounds in terms of u, n, the range and the magnitude of the data (the conditioning), not the sharpest known constants;
   the relative forms for streaming values and for int / mixed items are not restated (their explicit bounds are above). *)
Theorem C12_partial : forall (sq : Qc -> Qc) (xs : list Qc),
  sum_run (QA sq) true xs = [qsum xs]
  /\ variance_run (QA sq) true xs = [sample_var xs]
  /\ fvariance_run (QA sq) true xs = [pop_var xs]
  /\ variance_run (QA sq) false xs = running sample_var xs
  /\ fvariance_run (QA sq) false xs = running pop_var xs.
Proof.
  exact (fun sq xs => conj (sum_reduce sq xs) (conj (variance_reduce sq xs) (conj (fvariance_reduce sq xs)
           (conj (variance_running sq xs) (fvariance_running sq xs))))).
Qed.
Print Assumptions C12_partial.

(* non-vacuity: the exact instance and the binary64 instance evaluated on concrete inputs *)
Example C12_exact_example :
  map (fun q : Qc => this q) (variance_run (QA (fun x => x)) false [qz 1; qz 2; qz 4])
  = [0; 1 # 2; 7 # 3]%Q
  /\ map (fun q : Qc => this q) (fvariance_run (QA (fun x => x)) false [qz 1; qz 2; qz 4])
  = [0; 1 # 4; 14 # 9]%Q.
Proof. vm_compute. split; reflexivity. Qed.
Example C12_mean_empty_raises : forall sq, mean_run (QA sq) true [] = [None].
Proof. exact mean_reduce_empty. Qed.
Example C12_minmax_empty : forall sq, min_run (QA sq) true [] = [None] /\ max_run (QA sq) true [] = [None].
Proof. exact minmax_reduce_empty. Qed.
(* variance([1, 2, 4]) streaming = 0.0, 0.5, 2.333333333333333 (0x1.2aaaaaaaaaaaap+1) and reduce, in binary64;
   sum([1e16, 1.0, -1e16]) = 0.0 in recursive summation *)
Example C12_float_example :
  c12_check (CAgg AVar [] [LI 1; LI 2; LI 4]
               [(false, [LF 0 0; LF 1 (-1); LF 2627099782632789 (-50)], 0%Z);
                (true, [LF 2627099782632789 (-50)], 0%Z)]) = true
  /\ c12_check (CAgg ASum [] [LF 1 (-1); LI 1] [(true, [LF 3 (-1)], 0%Z)]) = true
  /\ c12_check (CAgg ASum [] [LF 1 (-1); LI 1] [(true, [LF 1 0], 0%Z)]) = false.
Proof. vm_compute. repeat split; reflexivity. Qed.
