(* C09 - scan/reduce algebra.  Statements only.  For every accumulator g (given through a catalogue
   name a with apply2 a = Ok . g), every seed, every item sequence xs of one lifetime of one key. *)
From Coq Require Import List ZArith Bool.
From RxVerif Require Import Mux.Val Mux.Sim Mux.SimExt Mux.Ops Mux.Syntax Mux.ConfineProofs Mux.LocalSemProofs
  Mux.MasterProofs Mux.OpsSpecProofs Mux.RecreateProofs.
Import ListNotations.

(* streaming: after the i-th item the left fold over the first i items *)
Theorem C09_running_fold : forall (a : fn2) (g : val -> val -> val), (forall acc x, apply2 a acc x = Ok (g acc x)) ->
  forall seed xs,
  steps_of (L_scan a seed TObj false None) xs = prefix_map (fun pre x => [It (fold g seed (pre ++ [x]))]) [] xs
  /\ done_of (L_scan a seed TObj false None) xs = [].
Proof. exact scan_running_spec. Qed.
Print Assumptions C09_running_fold.

(* reduce: nothing per item, exactly one item at completion: the fold (the seed for an empty key) *)
Theorem C09_reduce_fold : forall (a : fn2) (g : val -> val -> val), (forall acc x, apply2 a acc x = Ok (g acc x)) ->
  forall seed xs,
  steps_of (L_scan a seed TObj true None) xs = prefix_map (fun _ _ => []) [] xs
  /\ done_of (L_scan a seed TObj true None) xs = [It (fold g seed xs)].
Proof. exact scan_reduce_spec. Qed.
Print Assumptions C09_reduce_fold.

Theorem C09_streaming_last_is_reduce : forall (a : fn2) (g : val -> val -> val), (forall acc x, apply2 a acc x = Ok (g acc x)) ->
  forall seed x xs,
  last (steps_of (L_scan a seed TObj false None) (x :: xs)) [] = done_of (L_scan a seed TObj true None) (x :: xs).
Proof. exact scan_last_running_is_reduce. Qed.
Print Assumptions C09_streaming_last_is_reduce.

(* a terminator is applied once, at completion, to the final fold *)
Theorem C09_terminator_once : forall (a : fn2) (g : val -> val -> val), (forall acc x, apply2 a acc x = Ok (g acc x)) ->
  forall seed (tf : fn) (th : val -> val), (forall v, apply1 tf v = Ok (th v)) -> forall reduce xs,
  done_of (L_scan a seed TObj reduce (Some tf)) xs = [It (th (fold g seed xs))].
Proof. exact scan_terminator_spec. Qed.
Print Assumptions C09_terminator_once.

(* a raising step emits one mux error and leaves the accumulator unchanged *)
Theorem C09_raise_keeps_state : forall a seed t reduce term st x e,
  apply2 a (match st with Some c => c | None => seed end) x = Raise e ->
  lnext (L_scan a seed t reduce term) st (It x) = (st, [IErr e]).
Proof. exact scan_raise_keeps_state. Qed.
Print Assumptions C09_raise_keeps_state.

(* seed isolation between keys and lifetimes is C02: the state of a key is created afresh (NOTSET,
   seed taken again) at every Create and never addressed by another live key *)
Theorem C09_seed_isolation : forall (P : list op) (t pre life : list iev) (k : key), wf t ->
  filter (on_key item k) t = pre ++ Create k :: life ->
  sel item k t (raw_run P t) = local_run P pre ++ local_run P (Create k :: life).
Proof. exact pipe_lifetime. Qed.
Print Assumptions C09_seed_isolation.

(* ... also when the previous lifetime of the key was NOT completed: rxsci's operators release a key on a mux
   error as on a completion and the key may be created again.  wf' allows a Create for a key that is still
   live (the slot is free or held by this very key).  For every pipeline of per-slot operators (scan and
   what is defined through it, first/last/take/distinct/lag/pad/start_with/assert, the error handlers) what
   is emitted from that Create on is the local machine on the items that follow it, from the fresh seed *)
Theorem C09_fresh_after_an_uncompleted_lifetime :
  forall (P : list op) (t pre : list iev) (k : key) (xs : list item), simple_pipe P = true -> wf' t ->
  filter (on_key item k) t = pre ++ lifetime item k xs ->
  sel item k t (raw_run P t) =
    local_run P pre ++
    ([Create k] :: map (map (Next k)) (fst (ltimed item (pipe_l P) xs))
                ++ [map (Next k) (snd (ltimed item (pipe_l P) xs)) ++ [Done k]]).
Proof. exact recreate_lifetime. Qed.
Print Assumptions C09_fresh_after_an_uncompleted_lifetime.
Example C09_uncompleted_lifetime_example :
  wf' [Create [2]; Next [2] (It (VInt 5)); Next [2] (IErr 1%Z); Create [2]; Next [2] (It (VInt 7)); Done [2]]%nat /\
  concat (raw_run [OScan A2Add (VInt 0) TInt true None]
            [Create [2]; Next [2] (It (VInt 5)); Next [2] (IErr 1%Z); Create [2]; Next [2] (It (VInt 7)); Done [2]]%nat)
  = [Create [2]; Next [2] (IErr 1%Z); Create [2]; Next [2] (It (VInt 7)); Done [2]]%nat.
Proof.
  split; [|vm_compute; reflexivity].
  unfold wf'. cbn [allowed_seq' allowed' after'].
  refine (conj _ (conj _ (conj _ (conj _ (conj _ (conj _ I)))))); try (left; reflexivity).
  - intros k' [].
  - intros k' [E|Hi] _; [symmetry; exact E|]. cbn [remove] in Hi. destruct Hi.
Qed.

Example C09_den_scan a s t r tm : bl item (den (OScan a s t r tm)) = L_scan a s t r tm. Proof. reflexivity. Qed.
Example C09_example :
  steps_of (L_scan A2Add (VInt 0) TObj false None) [VInt 1; VInt 2; VInt 3] = [[It (VInt 1)]; [It (VInt 3)]; [It (VInt 6)]].
Proof. vm_compute. reflexivity. Qed.
