(* C16 - compression round-trips under re-chunking and flags truncated streams  (PARTIAL).
   Full statement (properties.jsonl): for gzip and zstd, decompress(rechunk(compress(chunks))) delivers
   exactly concat chunks for every re-chunking, the compressed stream is a valid standalone gzip/zstd
   file, and a stream that ends before its end marker makes decompress signal an error.
   What is proved here: the rxsci wrapper logic (z.py / zstd.py, the latter as repaired: empty chunks
   are not handed to the decoder), for ANY codec object; and the round trip / truncation statements for
   every codec that satisfies the three named laws H1-H3, which are hypotheses (premises below), not
   facts about zlib/zstandard: those libraries are tied to H1-H3 by differential testing only.
   The toy codec instance shows the premises are satisfiable (H1-H3 proved for it); for gzip the laws are proved for a
   codec built from an executable model of gzip decompression that is compared with the real zlib on every run (below).
   Only statements here; proofs are `exact <lemma>`. *)
From Coq Require Import List Arith Bool NArith ZArith.
From RxVerif Require Import Compress.ZstdFrame Compress.ZstdFrameProofs.
From RxVerif Require Import Compress.Inflate Compress.InflateProofs Compress.DeflateEnc Compress.DeflateEncProofs Compress.DeflateLz Compress.DeflateLzProofs Compress.DeflateDyn Compress.DeflateDynProofs.
From RxVerif Require Import Compress.Wrapper Compress.WrapperProofs Compress.ZstdFrameCodec Compress.InflateCodec.
Import ListNotations.

(* wrapper logic, any codec: every output of compressor.compress is forwarded while its chunk is
   pushed; flush is called once, at completion, followed by Completed *)
Theorem C16_compress_forwards_and_flushes_once :
  forall (I O CS : Type) (cinit : CS) (cstep : CS -> I -> option (CS * O)) (cflush : CS -> option O)
         (chunks : list I) (sf : CS) (outs : list O) (f : O),
  codec_run cstep cinit chunks = Some (sf, outs) -> cflush sf = Some f ->
  compress I O CS cinit cstep cflush chunks = map (fun o => [Next o]) outs ++ [[Next f; Completed]].
Proof. exact compress_forwards_and_flushes_once. Qed.
Print Assumptions C16_compress_forwards_and_flushes_once.

(* wrapper logic, any codec: Completed iff no decoder call raised on the chunks handed to it, the decoder
   reports eof at completion, and its flush does not raise *)
Theorem C16_decompress_completed_iff :
  forall (I O DS : Type) (dinit : DS) (dstep : DS -> I -> option (DS * O)) (deof : DS -> bool)
         (dflush : DS -> option O) (i_empty : I -> bool) (skip_empty : bool) (chunks : list I),
  In Completed (concat (decompress I O DS dinit dstep deof dflush i_empty skip_empty chunks)) <->
  exists sf outs f, codec_run dstep dinit (fed I i_empty skip_empty chunks) = Some (sf, outs)
                    /\ deof sf = true /\ dflush sf = Some f.
Proof. exact decompress_completed_iff. Qed.
Print Assumptions C16_decompress_completed_iff.

Theorem C16_decompress_error_iff_not_completed :
  forall (I O DS : Type) (dinit : DS) (dstep : DS -> I -> option (DS * O)) (deof : DS -> bool)
         (dflush : DS -> option O) (i_empty : I -> bool) (skip_empty : bool) (chunks : list I),
  In Error (concat (decompress I O DS dinit dstep deof dflush i_empty skip_empty chunks)) <->
  ~ In Completed (concat (decompress I O DS dinit dstep deof dflush i_empty skip_empty chunks)).
Proof. exact decompress_error_iff_not_completed. Qed.
Print Assumptions C16_decompress_error_iff_not_completed.

(* under the codec laws: round trip for every re-chunking (empty chunks, cuts anywhere) *)
Theorem C16_roundtrip_any_rechunking_partial :
  forall (B CS : Type) (cinit : CS) (cstep : CS -> list B -> option (CS * list B))
         (cflush : CS -> option (list B))
         (DS : Type) (dinit : DS) (dstep : DS -> list B -> option (DS * list B)) (deof : DS -> bool)
         (dflush : DS -> option (list B)) (skip_empty : bool),
  (* H1 *) (forall chunks w cs1 cs2 suf,
     enc_all B CS cinit cstep cflush chunks = Some w -> concat cs1 ++ suf = w -> concat cs2 = concat cs1 ->
     adm B skip_empty cs1 -> adm B skip_empty cs2 ->
     dec_all B DS dinit dstep deof dflush cs1 = dec_all B DS dinit dstep deof dflush cs2) ->
  (* H2 *) (forall chunks, exists w, enc_all B CS cinit cstep cflush chunks = Some w /\
     dec_all B DS dinit dstep deof dflush (canon w) = Some (concat chunks, true)) ->
  forall chunks rechunk : list (list B),
  concat rechunk = payload (concat (compress (list B) (list B) CS cinit cstep cflush chunks)) ->
  In Completed (concat (compress (list B) (list B) CS cinit cstep cflush chunks)) /\
  payload (concat (decompress (list B) (list B) DS dinit dstep deof dflush b_empty skip_empty rechunk))
    = concat chunks /\
  In Completed (concat (decompress (list B) (list B) DS dinit dstep deof dflush b_empty skip_empty rechunk)) /\
  ~ In Error (concat (decompress (list B) (list B) DS dinit dstep deof dflush b_empty skip_empty rechunk)).
Proof. exact roundtrip_any_rechunking. Qed.
Print Assumptions C16_roundtrip_any_rechunking_partial.

(* under the codec laws: every strict prefix of a compressed stream, however chunked, ends in Error *)
Theorem C16_truncation_is_error_partial :
  forall (B CS : Type) (cinit : CS) (cstep : CS -> list B -> option (CS * list B))
         (cflush : CS -> option (list B))
         (DS : Type) (dinit : DS) (dstep : DS -> list B -> option (DS * list B)) (deof : DS -> bool)
         (dflush : DS -> option (list B)) (skip_empty : bool),
  (* H1 *) (forall chunks w cs1 cs2 suf,
     enc_all B CS cinit cstep cflush chunks = Some w -> concat cs1 ++ suf = w -> concat cs2 = concat cs1 ->
     adm B skip_empty cs1 -> adm B skip_empty cs2 ->
     dec_all B DS dinit dstep deof dflush cs1 = dec_all B DS dinit dstep deof dflush cs2) ->
  (* H2 *) (forall chunks, exists w, enc_all B CS cinit cstep cflush chunks = Some w /\
     dec_all B DS dinit dstep deof dflush (canon w) = Some (concat chunks, true)) ->
  (* H3 *) (forall chunks w pre suf, enc_all B CS cinit cstep cflush chunks = Some w -> pre ++ suf = w ->
     suf <> [] -> forall o, dec_all B DS dinit dstep deof dflush (canon pre) <> Some (o, true)) ->
  forall (chunks rechunk : list (list B)) (suf : list B),
  suf <> [] ->
  concat rechunk ++ suf = payload (concat (compress (list B) (list B) CS cinit cstep cflush chunks)) ->
  In Error (concat (decompress (list B) (list B) DS dinit dstep deof dflush b_empty skip_empty rechunk)) /\
  ~ In Completed (concat (decompress (list B) (list B) DS dinit dstep deof dflush b_empty skip_empty rechunk)).
Proof. exact truncation_is_error. Qed.
Print Assumptions C16_truncation_is_error_partial.

(* the laws are satisfiable: for the toy codec they are proved, so both statements hold outright for
   the wrappers over the toy codec - the functions the correspondence check evaluates.
   (skip, strict) = (false, false): z.py over the lenient twin; (true, true): repaired zstd.py over the
   strict twin (raises on any call after eof, as zstandard's decompressobj does) *)
Theorem C16_toy_roundtrip : forall skip strict : bool, (strict = true -> skip = true) ->
  forall chunks rechunk : list (list N),
  concat rechunk = payload (concat (toy_compress chunks)) ->
  In Completed (concat (toy_compress chunks)) /\
  payload (concat (toy_decompress skip strict rechunk)) = concat chunks /\
  In Completed (concat (toy_decompress skip strict rechunk)) /\
  ~ In Error (concat (toy_decompress skip strict rechunk)).
Proof. exact toy_roundtrip. Qed.
Print Assumptions C16_toy_roundtrip.

Theorem C16_toy_truncation : forall skip strict : bool, (strict = true -> skip = true) ->
  forall (chunks rechunk : list (list N)) (suf : list N),
  suf <> [] -> concat rechunk ++ suf = payload (concat (toy_compress chunks)) ->
  In Error (concat (toy_decompress skip strict rechunk)) /\
  ~ In Completed (concat (toy_decompress skip strict rechunk)).
Proof. exact toy_truncation. Qed.
Print Assumptions C16_toy_truncation.

(* the unrepaired zstd wrapper (empty chunks handed to a strict decoder) does not have the property *)
Theorem C16_unrepaired_zstd_wrapper_refuted : exists chunks rechunk : list (list N),
  concat rechunk = payload (concat (toy_compress chunks)) /\
  In Error (concat (toy_decompress false true rechunk)).
Proof. exact toy_unrepaired_refuted. Qed.
Print Assumptions C16_unrepaired_zstd_wrapper_refuted.

(* ---------------------------------------------------------------------------------------------
   gzip MODELLED: Compress/Inflate.v is an executable model of gzip decompression - RFC 1952 container (all optional
   header fields, CRC-32 and ISIZE checked) around a full RFC 1951 inflate (stored, fixed-Huffman and dynamic-Huffman
   blocks, LZ77 copies) - with the three-valued answer Done data rest / NeedMore / Bad, and an encoder gzip_stored
   (stored blocks only).  The correspondence check runs the model on the streams the REAL z.compress wrapper emits
   (zlib level 6: fixed and dynamic Huffman blocks), on their strict prefixes and on bit-flipped / cut / extended
   variants with zlib's own verdict (C16Corr.CGunzip), every run.
   Proved of the model: a complete stream stays complete when bytes are appended and no strict prefix of a complete
   stream is complete - it is NeedMore, never Bad (truncation is never mistaken for completion: law H3, for EVERY
   stream the model accepts, Huffman blocks included); Done implies the CRC-32 / ISIZE trailer matches; the stored
   encoder round-trips every byte list; and the laws H1-H3 hold for the codec built from the model, so that the
   round-trip and truncation theorems above hold for it without premises.
   Proved by encoder round trips: the fixed-Huffman code with arbitrary LZ77 matches, and one dynamic-Huffman block with a
   fixed complete code; not proved: that inflate's OUTPUT on ARBITRARY dynamic codes and multi-block streams is what RFC 1951
   means (tied by the comparison with zlib only); zlib's compressor; zstandard (not modelled at all).
   --------------------------------------------------------------------------------------------- *)
Theorem C16_gunzip_complete_stream_stays_complete : forall p d r,
  gunzip p = Done d r -> forall x, gunzip (p ++ x) = Done d (r ++ x).
Proof. exact gunzip_extend_done. Qed.
Print Assumptions C16_gunzip_complete_stream_stays_complete.
Theorem C16_gunzip_truncated_is_needmore : forall p x d,
  gunzip (p ++ x) = Done d [] -> x <> [] -> gunzip p = NeedMore.
Proof. exact gunzip_truncated_needmore. Qed.
Print Assumptions C16_gunzip_truncated_is_needmore.
Theorem C16_gunzip_no_strict_prefix_is_complete : forall p x d,
  gunzip (p ++ x) = Done d [] -> x <> [] -> forall d' r', gunzip p <> Done d' r'.
Proof. exact gunzip_no_early_done. Qed.
Print Assumptions C16_gunzip_no_strict_prefix_is_complete.
Theorem C16_gunzip_invalid_stays_invalid : forall p, gunzip p = Bad -> forall x, gunzip (p ++ x) = Bad.
Proof. exact gunzip_extend_bad. Qed.
Print Assumptions C16_gunzip_invalid_stays_invalid.
Theorem C16_gunzip_total : forall s, gunzip s <> OutOfFuel.
Proof. exact gunzip_never_out_of_fuel. Qed.
Print Assumptions C16_gunzip_total.
Theorem C16_gunzip_done_checks_trailer : forall s d r, gunzip s = Done d r ->
  exists s1 out s2 crc s3 isize c4,
    gz_header ([], s) = Ok tt s1 /\ inflate_rev s1 = Ok out s2 /\ d = rev out /\
    get32 ([], snd s2) = Ok crc s3 /\ get32 s3 = Ok isize (c4, r) /\
    crc = crc32 d /\ isize = (Z.of_nat (length d) mod 4294967296)%Z.
Proof. exact gunzip_done_trailer. Qed.
Print Assumptions C16_gunzip_done_checks_trailer.
Theorem C16_gzip_stored_roundtrip : forall d, gunzip (gzip_stored d) = Done d [].
Proof. exact gunzip_stored_roundtrip_any. Qed.
Print Assumptions C16_gzip_stored_roundtrip.
(* inflate inverts the RFC's fixed-Huffman encoding: two encoders that emit ONE block of type 01 (fixed codes of RFC 1951
   3.2.6) - every byte as a literal; and with runs of one byte as length/distance pairs (distance 1, lengths 3..258: the
   length symbols with their extra bits, the distance code, the overlapping window copy).  The real zlib decompresses their
   output to the payload (checked when the model was written; the model side is a theorem).  Still only compared with
   zlib, not proved: dynamic-Huffman headers, distances above 1, multi-block Huffman streams. *)
Theorem C16_gunzip_inverts_fixed_huffman_literals : forall d, bytes d -> gunzip (gzip_fixed d) = Done d [].
Proof. exact gunzip_fixed_roundtrip. Qed.
Print Assumptions C16_gunzip_inverts_fixed_huffman_literals.
Theorem C16_gunzip_inverts_fixed_huffman_runs : forall d, bytes d -> gunzip (gzip_fixed_rle d) = Done d [].
Proof. exact gunzip_fixed_rle_roundtrip. Qed.
Print Assumptions C16_gunzip_inverts_fixed_huffman_runs.
(* ... and general LZ77 tokens (literal | match of length 3..258 at distance 1..32768 within the output so far, overlapping
   copies included): every length and distance symbol with its extra bits, both branches of the window copy; a greedy
   compressor built on them round-trips; and one DYNAMIC-Huffman block with a hand-chosen complete code (header parsing,
   code-length alphabet with repeat code 16, canonical tree construction with its Kraft check, decoding along the tree the
   model built).  The real zlib returns the payload for the streams of all these encoders. *)
Theorem C16_gunzip_inverts_lz77_tokens : forall ts d, toks_ok2 [] ts -> lz_expand ts = d ->
  gunzip (gz_tokens2 ts d) = Done d [].
Proof. exact gunzip_gz_tokens2. Qed.
Print Assumptions C16_gunzip_inverts_lz77_tokens.
Theorem C16_gunzip_inverts_greedy_lz_compressor : forall w d, bytes d -> gunzip (gzip_lz w d) = Done d [].
Proof. exact gunzip_lz_roundtrip. Qed.
Print Assumptions C16_gunzip_inverts_greedy_lz_compressor.
Theorem C16_gunzip_inverts_a_dynamic_huffman_block : forall d, bytes d -> gunzip (gzip_dynamic d) = Done d [].
Proof. exact gunzip_dynamic_roundtrip. Qed.
Print Assumptions C16_gunzip_inverts_a_dynamic_huffman_block.
(* the round-trip and truncation statements for the gzip codec of the model: no premises left *)
Theorem C16_gzip_model_roundtrip_any_rechunking : forall (skip : bool) (chunks rechunk : list (list Z)),
  concat rechunk = payload (concat (gz_compress chunks)) ->
  In Completed (concat (gz_compress chunks)) /\
  payload (concat (gz_decompress skip rechunk)) = concat chunks /\
  In Completed (concat (gz_decompress skip rechunk)) /\
  ~ In Error (concat (gz_decompress skip rechunk)).
Proof. exact gz_roundtrip_any_rechunking. Qed.
Print Assumptions C16_gzip_model_roundtrip_any_rechunking.
Theorem C16_gzip_model_truncation_is_error : forall (skip : bool) (chunks rechunk : list (list Z)) (suf : list Z),
  suf <> [] ->
  concat rechunk ++ suf = payload (concat (gz_compress chunks)) ->
  In Error (concat (gz_decompress skip rechunk)) /\
  ~ In Completed (concat (gz_decompress skip rechunk)).
Proof. exact gz_truncation_is_error. Qed.
Print Assumptions C16_gzip_model_truncation_is_error.
Theorem C16_gzip_model_stream_is_a_valid_file : forall chunks,
  gunzip (payload (concat (gz_compress chunks))) = Done (concat chunks) [].
Proof. exact gz_compress_payload_valid. Qed.
Print Assumptions C16_gzip_model_stream_is_a_valid_file.
Example C16_gunzip_example :
  gunzip (gzip_stored [104; 105]%Z) = Done [104; 105]%Z [] /\ gunzip (firstn 20 (gzip_stored [104; 105]%Z)) = NeedMore.
Proof. vm_compute. split; reflexivity. Qed.

(* ---------------------------------------------------------------------------------------------
   zstd: the FRAME STRUCTURE is modelled (Compress/ZstdFrame.v, RFC 8878: magic, frame header descriptor with window
   descriptor / dictionary id / content size, block headers with last-block bit, type and size, optional checksum,
   skippable frames) - enough to decide complete / incomplete / invalid without decoding compressed blocks - and compared
   with the real zstandard library on the streams the REAL zstd.compress wrapper emits, on their strict prefixes and with
   trailing bytes (C16Corr.CZstdScan), every run.  Proved of the model: the same prefix facts as for gzip - a complete
   frame stays complete under appended bytes, a strict prefix of a complete frame is incomplete (never complete, never
   invalid): truncation is never mistaken for completion; an encoder of raw-block frames round-trips; and the laws H1-H3
   for the codec built from it (for both wrapper variants; `once` = the real decompressobj refuses any call after the
   end of the frame, which is why the repaired wrapper skips empty chunks).
   Not modelled: the CONTENT of compressed blocks (FSE / Huffman), the XXH64 checksum value.
   --------------------------------------------------------------------------------------------- *)
Theorem C16_zstd_complete_frame_stays_complete : forall p r,
  zstd_scan p = ZDone r -> forall x, zstd_scan (p ++ x) = ZDone (r ++ x).
Proof. exact zstd_scan_extend_done. Qed.
Print Assumptions C16_zstd_complete_frame_stays_complete.
Theorem C16_zstd_truncated_is_needmore : forall p x,
  zstd_scan (p ++ x) = ZDone [] -> x <> [] -> zstd_scan p = ZNeedMore.
Proof. exact zstd_scan_truncated_needmore. Qed.
Print Assumptions C16_zstd_truncated_is_needmore.
Theorem C16_zstd_invalid_stays_invalid : forall p, zstd_scan p = ZBad -> forall x, zstd_scan (p ++ x) = ZBad.
Proof. exact zstd_scan_extend_bad. Qed.
Print Assumptions C16_zstd_invalid_stays_invalid.
Theorem C16_zstd_scan_total : forall s, zstd_scan s <> ZOutOfFuel.
Proof. exact zstd_scan_never_out_of_fuel. Qed.
Print Assumptions C16_zstd_scan_total.
Theorem C16_zstd_raw_frames_roundtrip : forall d,
  zstd_scan (zstd_raw d) = ZDone [] /\ zstd_unraw (zstd_raw d) = ZstdFrame.Done d [].
Proof. exact (fun d => conj (zstd_scan_raw d) (zstd_unraw_raw d)). Qed.
Print Assumptions C16_zstd_raw_frames_roundtrip.
Theorem C16_zstd_model_roundtrip_any_rechunking : forall (skip once : bool), (once = true -> skip = true) ->
  forall (chunks rechunk : list (list Z)),
  concat rechunk = payload (concat (zs_compress chunks)) ->
  In Completed (concat (zs_compress chunks)) /\
  payload (concat (zs_decompress skip once rechunk)) = concat chunks /\
  In Completed (concat (zs_decompress skip once rechunk)) /\
  ~ In Error (concat (zs_decompress skip once rechunk)).
Proof. exact zs_roundtrip_any_rechunking. Qed.
Print Assumptions C16_zstd_model_roundtrip_any_rechunking.
Theorem C16_zstd_model_truncation_is_error : forall (skip once : bool), (once = true -> skip = true) ->
  forall (chunks rechunk : list (list Z)) (suf : list Z),
  suf <> [] ->
  concat rechunk ++ suf = payload (concat (zs_compress chunks)) ->
  In Error (concat (zs_decompress skip once rechunk)) /\
  ~ In Completed (concat (zs_decompress skip once rechunk)).
Proof. exact zs_truncation_is_error. Qed.
Print Assumptions C16_zstd_model_truncation_is_error.

(* non-vacuity *)
Example C16_toy_compress_example :
  toy_compress [[1;2;3]; []; [4;5;6;7;8;9]]%N =
  [[Next []]; [Next []]; [Next [4;1;2;3;4; 4;5;6;7;8]%N]; [Next [1;9;0]%N; Completed]].
Proof. vm_compute. reflexivity. Qed.
Example C16_toy_decompress_example :
  toy_decompress true true [[4;1;2]; []; [3;4;1]; [9;0]; []]%N =
  [[Next [1;2]%N]; []; [Next [3;4]%N]; [Next [9]%N]; []; [Next []; Completed]].
Proof. vm_compute. reflexivity. Qed.
Example C16_toy_truncated_example :
  toy_decompress true true [[4;1;2]; [3;4;1]; [9]]%N = [[Next [1;2]%N]; [Next [3;4]%N]; [Next [9]%N]; [Error]].
Proof. vm_compute. reflexivity. Qed.
