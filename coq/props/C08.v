(* C08 - tee_map equals running each branch independently and joining the results.  Statements only.
   For every list of branches (each an arbitrary machine with its refinement proof: streaming,
   filtering, reducing, nested windows, nested tees), every join mode and every item sequence. *)
From Coq Require Import List ZArith Bool.
From RxVerif Require Import Mux.Val Mux.Sim Mux.SimExt Mux.Ops Mux.Syntax Mux.LocalSemProofs Mux.TeeSpecProofs
  Mux.OpsSpecProofs Mux.MasterProofs Mux.Plain Mux.PlainTimed Mux.PlainTimedProofs.
Import ListNotations.

(* slot level: with cells at key[0]*n + i in one shared queue, the tee refines the per-key product of
   its branches joined on n private cells - on every well-formed keyed trace, any n >= 1 *)
Theorem C08_tee_refines_per_key_join : forall (mode : jmode) (bs : list (branch item)), 1 <= length bs ->
  refines (tee_m item mode mk_tuple special bs) (tee_l item mode mk_tuple special bs).
Proof. intros mode bs H. exact (tee_refines item mode mk_tuple special bs H). Qed.
Print Assumptions C08_tee_refines_per_key_join.

(* inside the tee every branch evolves exactly as when it is run alone on the same items *)
Theorem C08_branches_independent : forall (bs : list (branch item)) (xs : list item) (st : LS_all item bs),
  all_steps item bs st xs = (indep_from item bs st xs, final_from item bs st xs).
Proof. exact (branches_independent item). Qed.
Print Assumptions C08_branches_independent.

(* per key: the timed output of the tee is the join, folded over the source items (per source event:
   branch 0's outputs first, then branch 1's, ...), of the outputs of the branches run alone; at
   completion, the join of what each branch alone emits at completion *)
Theorem C08_tee_is_join_of_independent_branches :
  forall (mode : jmode) (bs : list (branch item)) (xs : list item),
  fst (ltimed item (tee_l item mode mk_tuple special bs) xs)
    = fst (join_steps item mode mk_tuple special (indep_steps item bs xs) (cells0 item bs)) /\
  snd (ltimed item (tee_l item mode mk_tuple special bs) xs)
    = snd (ljoin_all item mode mk_tuple special 0 (indep_done item bs xs)
             (snd (join_steps item mode mk_tuple special (indep_steps item bs xs) (cells0 item bs)))).
Proof. intros mode bs xs. exact (tee_is_join item mode mk_tuple special bs xs). Qed.
Print Assumptions C08_tee_is_join_of_independent_branches.

(* the three joins on one arriving branch value v of branch i (cells c: one per branch) *)
Theorem C08_join_merge : forall i v c, ljoin_next item Merge mk_tuple special i v c = (c, [v]).
Proof. intros. now apply join_merge_forwards. Qed.
Print Assumptions C08_join_merge.
Theorem C08_join_zip : forall i v c, special v = false ->
  ljoin_next item Zip mk_tuple special i v c =
  let c1 := set_nth i (Some v) None c in
  if all_some item c1 then (map (fun _ => None) c1, [mk_tuple c1]) else (c1, []).
Proof. intros. now apply join_zip. Qed.
Print Assumptions C08_join_zip.
Theorem C08_join_combine_latest : forall i v c, special v = false ->
  ljoin_next item Combine mk_tuple special i v c = let c1 := set_nth i (Some v) None c in (c1, [mk_tuple c1]).
Proof. intros. now apply join_combine. Qed.
Print Assumptions C08_join_combine_latest.

(* tee_map on a PLAIN observable, as list functions (PlainTimed.tee_join: the join folded over the source
   items of the branches' own timed plain outputs, then over their completion outputs), is what the
   per-key local machine of the multiplexed tee_map emits, step by step; branches are arbitrary pipelines of
   the timed plain fragment, nested tees included *)
Theorem C08_plain_tee_equals_keyed_tee : forall (mode : jmode) (p : list op) (bs : list (list op)) (xs : list val) (rs : list timed),
  pbranches (p :: bs) xs = Some rs ->
  ltimed item (bl item (den (OTee mode (p :: bs)))) (its xs)
  = (map its (fst (tee_join mode xs rs)), its (snd (tee_join mode xs rs))).
Proof.
  intros mode p bs xs rs H. apply (all_ops_ts (OTee mode (p :: bs)) xs (tee_join mode xs rs)).
  rewrite ptimed_op_tee, H. reflexivity.
Qed.
Print Assumptions C08_plain_tee_equals_keyed_tee.

Example C08_example :
  ltimed item (bl item (den (OTee Zip [[OFilter FIsOdd]; [OMap (FMul (VInt 10))]])))
              [It (VInt 1); It (VInt 2); It (VInt 3)]
  = ([[It (VTuple [VInt 1; VInt 10])]; []; [It (VTuple [VInt 3; VInt 20])]], []).
Proof. vm_compute. reflexivity. Qed.
