(* C15 - framing round-trips under any re-chunking of the framed stream.
   Only statements here; proofs are `exact <lemma>`. *)
From Coq Require Import List Arith ZArith NArith.
From RxVerif Require Import Framing.Line Framing.LengthPrefix Framing.C15Lemmas.
Import ListNotations.

Theorem C15_line_roundtrip : forall (items chunks : list (list Z)) (tail : list Z),
  Forall z_no_nl items -> z_no_nl tail ->
  concat chunks = concat (z_frame items) ++ tail ->
  concat (z_unframe chunks) = items ++ (if length tail =? 0 then [] else [tail]).
Proof. exact line_roundtrip. Qed.
Print Assumptions C15_line_roundtrip.

Theorem C15_line_prompt : forall (c1 c2 : list (list Z)),
  firstn (length c1) (z_unframe (c1 ++ c2)) = removelast (z_unframe c1).
Proof. exact line_prompt. Qed.
Print Assumptions C15_line_prompt.

Theorem C15_length_prefix_roundtrip :
  forall (p : nat) (big : bool) (items chunks : list (list N)) (partial : list N),
  1 <= p -> Forall (fits p) items -> unparsable p big partial ->
  concat chunks = concat (n_frame p big items) ++ partial ->
  concat (fst (n_unframe p big chunks)) = items /\ snd (n_unframe p big chunks) = partial.
Proof. exact lp_roundtrip. Qed.
Print Assumptions C15_length_prefix_roundtrip.

Theorem C15_incomplete_frame_never_delivered : forall (p : nat) (big : bool) (item pre suf : list N), 1 <= p -> fits p item ->
  suf <> [] -> pre ++ suf = LengthPrefix.frame1 (if big then to_be p else to_le p) item -> unparsable p big pre.
Proof. exact lp_strict_prefix_unparsable. Qed.
Print Assumptions C15_incomplete_frame_never_delivered.

(* non-vacuity: concrete instances of the hypotheses, evaluated *)
Example C15_line_example :
  concat (z_unframe [[97; 10; 98]; []; [99; 10; 10]; [100]]%Z) = [[97]; [98; 99]; []; [100]]%Z.
Proof. vm_compute. reflexivity. Qed.
Example C15_lp_example :
  n_unframe 2 true [[0]; [2; 7]; [8; 0; 0; 0]; [3; 1]]%N = ([[]; []; [[7; 8]; []]; []], [0; 3; 1])%N.
Proof. vm_compute. reflexivity. Qed.
