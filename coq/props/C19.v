(* C19 - JSON-lines dump/load round-trips objects, with or without compression  (PARTIAL).
   Full statement (properties.jsonl): objects written with json.dump / dump_to_file and read back with
   json.load / load_from_file are returned equal and in order, one item per object, for every compression
   setting; newlines, quotes, non-ASCII characters in strings do not break line framing, and files larger
   than the read chunk are reassembled.
   Also (second group of theorems): lines=False on a file that holds ONE document.
   What is proved: the rxsci logic (per-item newline, stage order, file append / 64 KiB read = a re-chunking,
   also over a raw stream that returns short reads,
   line unframing - reusing the C15 theorem -, skip, len(line) > 0 filter, None filter) composes to the
   identity for ALL object lists and ALL chunkings of the file, GIVEN the premises below about the
   libraries: orjson (loads(dumps o) = o, dumps o has no raw newline and is non-empty), the incremental text
   codec (C17) and the compression stage (C16).  These premises are NOT proved here for orjson / CPython
   codecs / zlib / zstandard; they are tied by the differential test of this check.
   Only statements here; proofs are `exact <lemma>`. *)
From Coq Require Import List Arith Bool ZArith NArith.
From RxVerif Require Import Framing.Line Container.Parquet Container.JsonLines Container.JsonLinesProofs.
From RxVerif Require Import Container.Json Container.JsonProofs Container.JsonC19.
From RxVerif Require Import Container.FloatText Container.JsonFloat Container.JsonFloatProofs Container.JsonFloatC19 Container.C19EndToEnd Container.MoreEndToEnd.
Import ListNotations.

Theorem C19_load_any_rechunking_of_dump_partial :
  forall (Obj Ch Byte : Type) (is_nl : Ch -> bool) (nl : Ch) (dumps : Obj -> list Ch)
         (loads : list Ch -> option Obj) (is_null : Obj -> bool)
         (encode : list (list Ch) -> list (list Byte)) (decode : list (list Byte) -> option (list (list Ch)))
         (compress : list (list Byte) -> list (list Byte))
         (decompress : list (list Byte) -> option (list (list Byte))),
  (* H_newline *) is_nl nl = true ->
  (* H_loads_dumps *) (forall o, loads (dumps o) = Some o) ->
  (* H_dumps_no_newline *) (forall o, no_nl Ch is_nl (dumps o)) ->
  (* H_dumps_nonempty *) (forall o, dumps o <> []) ->
  (* H_text_codec *) (forall cs r, concat r = concat (encode cs) ->
                      exists cs', decode r = Some cs' /\ concat cs' = concat cs) ->
  (* H_compression *) (forall bs r, concat r = concat (compress bs) ->
                       exists bs', decompress r = Some bs' /\ concat bs' = concat bs) ->
  forall (objs : list Obj) (r : list (list Byte)) (skip : nat) (ign : bool),
  concat r = dump_to_file Obj Ch Byte nl dumps encode compress objs ->
  load_chunks Obj Ch Byte is_nl loads is_null decode decompress skip ign r =
  (filter (fun o => negb (is_null o)) (skipn skip objs), true).
Proof. exact load_rechunk_dump. Qed.
Print Assumptions C19_load_any_rechunking_of_dump_partial.

(* with file.read(size) as the re-chunking, for every read size; no top-level null among the objects *)
Theorem C19_load_from_file_dump_to_file_partial :
  forall (Obj Ch Byte : Type) (is_nl : Ch -> bool) (nl : Ch) (dumps : Obj -> list Ch)
         (loads : list Ch -> option Obj) (is_null : Obj -> bool)
         (encode : list (list Ch) -> list (list Byte)) (decode : list (list Byte) -> option (list (list Ch)))
         (compress : list (list Byte) -> list (list Byte))
         (decompress : list (list Byte) -> option (list (list Byte))),
  is_nl nl = true ->
  (forall o, loads (dumps o) = Some o) ->
  (forall o, no_nl Ch is_nl (dumps o)) ->
  (forall o, dumps o <> []) ->
  (forall cs r, concat r = concat (encode cs) -> exists cs', decode r = Some cs' /\ concat cs' = concat cs) ->
  (forall bs r, concat r = concat (compress bs) -> exists bs', decompress r = Some bs' /\ concat bs' = concat bs) ->
  forall (objs : list Obj) (size : nat) (ign : bool),
  (forall o, In o objs -> is_null o = false) ->
  load_from_file Obj Ch Byte is_nl loads is_null decode decompress size 0 ign
    (dump_to_file Obj Ch Byte nl dumps encode compress objs) = (objs, true).
Proof. exact load_from_file_dump_to_file_objects. Qed.
Print Assumptions C19_load_from_file_dump_to_file_partial.

(* file.read over a RAW stream (custom open_obj returning an io.RawIOBase-like object): a read call may deliver
   fewer bytes than asked before the end of the data; caps = what the stream has at hand at each call.  The
   chunks are the whole file as soon as the loop ran to the end, whatever the short reads were ... *)
Theorem C19_raw_read_whole : forall (Byte : Type) (size : nat) (caps : list nat) (f : list Byte),
  length (concat (raw_read Byte size caps f)) = length f -> concat (raw_read Byte size caps f) = f.
Proof. exact raw_read_whole. Qed.
Print Assumptions C19_raw_read_whole.

(* ... which happens when every call delivers at least one byte (only an empty read means end of file) *)
Theorem C19_raw_read_enough : forall (Byte : Type) (size : nat) (caps : list nat) (f : list Byte),
  0 < size -> Forall (fun c => 0 < c) caps -> length f <= length caps -> concat (raw_read Byte size caps f) = f.
Proof. exact raw_read_enough. Qed.
Print Assumptions C19_raw_read_enough.

(* the size-level function evaluated by the correspondence check (raw_sizes) gives the sizes of these chunks *)
Theorem C19_raw_read_sizes : forall (Byte : Type) (size : nat) (caps : list nat) (f : list Byte),
  map (fun ch => N.of_nat (length ch)) (raw_read Byte size caps f) =
  raw_sizes (N.of_nat size) (map N.of_nat caps) (N.of_nat (length f)).
Proof. exact raw_read_sizes. Qed.
Print Assumptions C19_raw_read_sizes.

(* the round trip through a raw stream, for every read size and every sequence of short reads of at least one
   byte each *)
Theorem C19_load_raw_stream_dump_partial :
  forall (Obj Ch Byte : Type) (is_nl : Ch -> bool) (nl : Ch) (dumps : Obj -> list Ch)
         (loads : list Ch -> option Obj) (is_null : Obj -> bool)
         (encode : list (list Ch) -> list (list Byte)) (decode : list (list Byte) -> option (list (list Ch)))
         (compress : list (list Byte) -> list (list Byte))
         (decompress : list (list Byte) -> option (list (list Byte))),
  is_nl nl = true ->
  (forall o, loads (dumps o) = Some o) ->
  (forall o, no_nl Ch is_nl (dumps o)) ->
  (forall o, dumps o <> []) ->
  (forall cs r, concat r = concat (encode cs) -> exists cs', decode r = Some cs' /\ concat cs' = concat cs) ->
  (forall bs r, concat r = concat (compress bs) -> exists bs', decompress r = Some bs' /\ concat bs' = concat bs) ->
  forall (objs : list Obj) (size : nat) (caps : list nat) (skip : nat) (ign : bool),
  0 < size -> Forall (fun c => 0 < c) caps ->
  length (dump_to_file Obj Ch Byte nl dumps encode compress objs) <= length caps ->
  load_chunks Obj Ch Byte is_nl loads is_null decode decompress skip ign
    (raw_read Byte size caps (dump_to_file Obj Ch Byte nl dumps encode compress objs)) =
  (filter (fun o => negb (is_null o)) (skipn skip objs), true).
Proof. exact load_raw_stream_dump. Qed.
Print Assumptions C19_load_raw_stream_dump_partial.

(* compression=None satisfies the compression premise *)
Theorem C19_no_compression_ok : forall (Byte : Type) (bs r : list (list Byte)),
  concat r = concat ((fun x => x) bs) ->
  exists bs', (fun x => Some x) r = Some bs' /\ concat bs' = concat bs.
Proof. exact no_compression_ok. Qed.
Print Assumptions C19_no_compression_ok.

(* the length-level unframe used by the correspondence check on big files is the abstraction of
   Framing.Line.run_timed (the function C15 is proved about) *)
Theorem C19_length_abstraction : forall (C : Type) (is_nl : C -> bool) (chunks : list (list C)) (acc : list C),
  len_run_timed (lenN C acc) (map (seglens C is_nl) chunks) =
  map (map (lenN C)) (Line.run_timed C is_nl acc chunks).
Proof. exact len_run_timed_spec. Qed.
Print Assumptions C19_length_abstraction.

(* ---- lines=False on a file that holds ONE document (what dump_to_file writes for one object) ----
   file.read(size=-1) delivers the whole file in one chunk; there is no line.unframe, so the document is parsed
   from the one non-empty text item that reaches load.  Premises about the libraries (NOT proved for them; tied
   by the differential test): orjson parses the document followed by the newline dump appended; the text
   codec and the compression stage, fed the whole file in ONE non-empty item (plus empty items), deliver the
   whole text / the whole byte string in ONE non-empty item (plus empty flush items). *)
Theorem C19_load_doc_from_file_dump_one_partial :
  forall (Obj Ch Byte : Type) (nl : Ch) (dumps : Obj -> list Ch)
         (loads : list Ch -> option Obj) (is_null : Obj -> bool)
         (encode : list (list Ch) -> list (list Byte)) (decode : list (list Byte) -> option (list (list Ch)))
         (compress : list (list Byte) -> list (list Byte))
         (decompress : list (list Byte) -> option (list (list Byte))),
  (* H_loads_dumps_nl *) (forall o, loads (dumps o ++ [nl]) = Some o) ->
  (* H_text_codec_whole *) (forall cs r, drop_empty r = drop_empty [concat (encode cs)] ->
                            exists cs', decode r = Some cs' /\ drop_empty cs' = drop_empty [concat cs]) ->
  (* H_compression_whole *) (forall bs r, drop_empty r = drop_empty [concat (compress bs)] ->
                             exists bs', decompress r = Some bs' /\ drop_empty bs' = drop_empty [concat bs]) ->
  forall (o : Obj) (ign : bool), is_null o = false ->
  load_doc_from_file Obj Ch Byte loads is_null decode decompress 0 ign
    (dump_to_file Obj Ch Byte nl dumps encode compress [o]) = ([o], true).
Proof. exact load_doc_from_file_dump_one. Qed.
Print Assumptions C19_load_doc_from_file_dump_one_partial.

(* the same through a raw stream: read(-1) = readall() joins short reads of at least one byte each *)
Theorem C19_load_doc_raw_stream_dump_one_partial :
  forall (Obj Ch Byte : Type) (nl : Ch) (dumps : Obj -> list Ch)
         (loads : list Ch -> option Obj) (is_null : Obj -> bool)
         (encode : list (list Ch) -> list (list Byte)) (decode : list (list Byte) -> option (list (list Ch)))
         (compress : list (list Byte) -> list (list Byte))
         (decompress : list (list Byte) -> option (list (list Byte))),
  (forall o, loads (dumps o ++ [nl]) = Some o) ->
  (forall cs r, drop_empty r = drop_empty [concat (encode cs)] ->
   exists cs', decode r = Some cs' /\ drop_empty cs' = drop_empty [concat cs]) ->
  (forall bs r, drop_empty r = drop_empty [concat (compress bs)] ->
   exists bs', decompress r = Some bs' /\ drop_empty bs' = drop_empty [concat bs]) ->
  forall (o : Obj) (buf : nat) (caps : list nat) (ign : bool), is_null o = false ->
  0 < buf -> Forall (fun c => 0 < c) caps ->
  length (dump_to_file Obj Ch Byte nl dumps encode compress [o]) <= length caps ->
  load_doc_chunks Obj Ch Byte loads is_null decode decompress 0 ign
    (file_read_all Byte (raw_readall Byte buf caps (dump_to_file Obj Ch Byte nl dumps encode compress [o]))) =
  ([o], true).
Proof. exact load_doc_raw_stream_dump_one. Qed.
Print Assumptions C19_load_doc_raw_stream_dump_one_partial.

(* file.read(size=-1) delivers the file unchanged; the size-level function of the correspondence check
   (doc_read_sizes) gives the sizes of its chunks *)
Theorem C19_file_read_all_concat : forall (Byte : Type) (f : list Byte), concat (file_read_all Byte f) = f.
Proof. exact file_read_all_concat. Qed.
Print Assumptions C19_file_read_all_concat.
Theorem C19_file_read_all_sizes : forall (Byte : Type) (f : list Byte),
  map (fun ch => N.of_nat (length ch)) (file_read_all Byte f) = doc_read_sizes (N.of_nat (length f)).
Proof. exact file_read_all_sizes. Qed.
Print Assumptions C19_file_read_all_sizes.

(* compression=None satisfies the whole-item compression premise *)
Theorem C19_no_compression_whole_ok : forall (Byte : Type) (bs r : list (list Byte)),
  drop_empty r = drop_empty [concat ((fun x => x) bs)] ->
  exists bs', (fun x => Some x) r = Some bs' /\ drop_empty bs' = drop_empty [concat bs].
Proof. exact no_compression_whole_ok. Qed.
Print Assumptions C19_no_compression_whole_ok.

(* ---------------------------------------------------------------------------------------------
   orjson MODELLED on the float-free subset of JSON (null, booleans, ints of orjson's range, strings of valid
   code points, arrays, objects with unique string keys): Container/Json.v = json_text / json_print (compact form,
   the escapes orjson emits, raw UTF-8) and json_parse (whitespace, all escapes incl. surrogate pairs, strict UTF-8,
   integer syntax, repeated keys as orjson resolves them).  The correspondence check compares both with the real
   library on every run (C19Corr.CJsonModel: the text rxsci json.dump emitted for each generated value = json_print;
   json_parse = orjson.loads on noisy and mutated texts, rejections included).  The orjson premises of the
   theorems above are THEOREMS for this model, so that only the text codec (C17) and the compression stage (C16)
   remain as premises.  Outside this first model: floats (added by the second model below), ints beyond orjson's range
   (loads turns them into floats; covered by the second model), orjson's nesting limits (254 on dumps, 1024 on loads).
   --------------------------------------------------------------------------------------------- *)
Theorem C19_json_model_parse_print : forall v, jv_wf v -> json_parse (json_print v) = Some v.
Proof. exact json_parse_print. Qed.
Print Assumptions C19_json_model_parse_print.
Theorem C19_json_model_parse_print_then_whitespace : forall v ws, jv_wf v -> all_ws ws ->
  json_parse (json_print v ++ ws) = Some v.
Proof. exact json_parse_print_ws. Qed.
Print Assumptions C19_json_model_parse_print_then_whitespace.
Theorem C19_json_model_no_control_byte : forall v, Forall (fun b => (32 <= b)%Z) (json_print v).
Proof. exact json_print_no_control. Qed.
Print Assumptions C19_json_model_no_control_byte.
Theorem C19_json_model_no_raw_newline : forall v, ~ In 10%Z (json_print v).
Proof. exact json_print_no_newline. Qed.
Print Assumptions C19_json_model_no_raw_newline.
Theorem C19_json_model_nonempty : forall v, json_print v <> [].
Proof. exact json_print_nonempty. Qed.
Print Assumptions C19_json_model_nonempty.
Theorem C19_json_model_is_utf8 : forall v, jv_wf v -> utf8_decode (json_print v) = Some (json_text v).
Proof. exact json_print_utf8. Qed.
Print Assumptions C19_json_model_is_utf8.
(* the three composition theorems with the orjson premises discharged (Obj = well-formed values, Ch = code points) *)
Theorem C19_model_load_any_rechunking_of_dump :
  forall (Byte : Type)
         (encode : list (list Z) -> list (list Byte)) (decode : list (list Byte) -> option (list (list Z)))
         (compress : list (list Byte) -> list (list Byte))
         (decompress : list (list Byte) -> option (list (list Byte))),
  (* H_text_codec *) (forall cs r, concat r = concat (encode cs) ->
                      exists cs', decode r = Some cs' /\ concat cs' = concat cs) ->
  (* H_compression *) (forall bs r, concat r = concat (compress bs) ->
                       exists bs', decompress r = Some bs' /\ concat bs' = concat bs) ->
  forall (objs : list wfjv) (r : list (list Byte)) (skip : nat) (ign : bool),
  concat r = dump_to_file wfjv Z Byte 10%Z wf_dumps encode compress objs ->
  load_chunks wfjv Z Byte z_is_nl wf_loads wf_is_null decode decompress skip ign r =
  (filter (fun o => negb (wf_is_null o)) (skipn skip objs), true).
Proof. exact JsonC19.C19_model_load_any_rechunking_of_dump. Qed.
Print Assumptions C19_model_load_any_rechunking_of_dump.
Theorem C19_model_load_from_file_dump_to_file :
  forall (Byte : Type)
         (encode : list (list Z) -> list (list Byte)) (decode : list (list Byte) -> option (list (list Z)))
         (compress : list (list Byte) -> list (list Byte))
         (decompress : list (list Byte) -> option (list (list Byte))),
  (forall cs r, concat r = concat (encode cs) -> exists cs', decode r = Some cs' /\ concat cs' = concat cs) ->
  (forall bs r, concat r = concat (compress bs) -> exists bs', decompress r = Some bs' /\ concat bs' = concat bs) ->
  forall (objs : list wfjv) (size : nat) (ign : bool),
  (forall o, In o objs -> wf_is_null o = false) ->
  load_from_file wfjv Z Byte z_is_nl wf_loads wf_is_null decode decompress size 0 ign
    (dump_to_file wfjv Z Byte 10%Z wf_dumps encode compress objs) = (objs, true).
Proof. exact JsonC19.C19_model_load_from_file_dump_to_file. Qed.
Print Assumptions C19_model_load_from_file_dump_to_file.
Theorem C19_model_load_doc_from_file_dump_one :
  forall (Byte : Type)
         (encode : list (list Z) -> list (list Byte)) (decode : list (list Byte) -> option (list (list Z)))
         (compress : list (list Byte) -> list (list Byte))
         (decompress : list (list Byte) -> option (list (list Byte))),
  (forall cs r, drop_empty r = drop_empty [concat (encode cs)] ->
   exists cs', decode r = Some cs' /\ drop_empty cs' = drop_empty [concat cs]) ->
  (forall bs r, drop_empty r = drop_empty [concat (compress bs)] ->
   exists bs', decompress r = Some bs' /\ drop_empty bs' = drop_empty [concat bs]) ->
  forall (o : wfjv) (ign : bool), wf_is_null o = false ->
  load_doc_from_file wfjv Z Byte wf_loads wf_is_null decode decompress 0 ign
    (dump_to_file wfjv Z Byte 10%Z wf_dumps encode compress [o]) = ([o], true).
Proof. exact JsonC19.C19_model_load_doc_from_file_dump_one. Qed.
Print Assumptions C19_model_load_doc_from_file_dump_one.
(* ---------------------------------------------------------------------------------------------
   The same with finite binary64 floats (Container/JsonFloat.v over FloatText.v): the printer is what orjson.dumps emits
   for a float (shortest round-trip digits; fixed notation while -5 < number of digits + decimal exponent <= 16, else
   D[.IGITS]e+-EXP), the parser reads JSON number syntax and rounds to nearest-even (an overflow to infinity is a
   rejection, as in orjson).  Equality is structural: -0.0 comes back as -0.0.  nan / inf are not values of the model
   (orjson writes null for them; the harness never feeds them).  Compared with the real library on every run
   (C19Corr.CJsonFloat).
   --------------------------------------------------------------------------------------------- *)
Theorem C19_json_float_model_parse_print : forall v, jvf_wf v -> jsonf_parse (jsonf_print v) = Some v.
Proof. exact jsonf_parse_print. Qed.
Print Assumptions C19_json_float_model_parse_print.
Theorem C19_json_float_model_parse_print_then_whitespace : forall v ws, jvf_wf v -> all_ws ws ->
  jsonf_parse (jsonf_print v ++ ws) = Some v.
Proof. exact jsonf_parse_print_ws. Qed.
Print Assumptions C19_json_float_model_parse_print_then_whitespace.
Theorem C19_json_float_model_number : forall x r, fl_ok x -> num_stop r ->
  parse_number_f (float_text x ++ r) = Some (FFloat x, r).
Proof. exact parse_number_f_float. Qed.
Print Assumptions C19_json_float_model_number.
Theorem C19_json_float_model_no_control_byte : forall v, Forall (fun b => (32 <= b)%Z) (jsonf_print v).
Proof. exact jsonf_print_no_control. Qed.
Print Assumptions C19_json_float_model_no_control_byte.
Theorem C19_json_float_model_no_raw_newline : forall v, ~ In 10%Z (jsonf_print v).
Proof. exact jsonf_print_no_newline. Qed.
Print Assumptions C19_json_float_model_no_raw_newline.
Theorem C19_json_float_model_nonempty : forall v, jsonf_print v <> [].
Proof. exact jsonf_print_nonempty. Qed.
Print Assumptions C19_json_float_model_nonempty.
Theorem C19_json_float_model_is_utf8 : forall v, jvf_wf v -> utf8_decode (jsonf_print v) = Some (jsonf_text v).
Proof. exact jsonf_print_utf8. Qed.
Print Assumptions C19_json_float_model_is_utf8.
(* the composition theorems once more, Obj = well-formed values that may hold floats *)
Theorem C19_modelf_load_any_rechunking_of_dump :
  forall (Byte : Type)
         (encode : list (list Z) -> list (list Byte)) (decode : list (list Byte) -> option (list (list Z)))
         (compress : list (list Byte) -> list (list Byte))
         (decompress : list (list Byte) -> option (list (list Byte))),
  (* H_text_codec *) (forall cs r, concat r = concat (encode cs) ->
                      exists cs', decode r = Some cs' /\ concat cs' = concat cs) ->
  (* H_compression *) (forall bs r, concat r = concat (compress bs) ->
                       exists bs', decompress r = Some bs' /\ concat bs' = concat bs) ->
  forall (objs : list wfjvf) (r : list (list Byte)) (skip : nat) (ign : bool),
  concat r = dump_to_file wfjvf Z Byte 10%Z wff_dumps encode compress objs ->
  load_chunks wfjvf Z Byte zf_is_nl wff_loads wff_is_null decode decompress skip ign r =
  (filter (fun o => negb (wff_is_null o)) (skipn skip objs), true).
Proof. exact JsonFloatC19.C19_modelf_load_any_rechunking_of_dump. Qed.
Print Assumptions C19_modelf_load_any_rechunking_of_dump.
Theorem C19_modelf_load_from_file_dump_to_file :
  forall (Byte : Type)
         (encode : list (list Z) -> list (list Byte)) (decode : list (list Byte) -> option (list (list Z)))
         (compress : list (list Byte) -> list (list Byte))
         (decompress : list (list Byte) -> option (list (list Byte))),
  (forall cs r, concat r = concat (encode cs) -> exists cs', decode r = Some cs' /\ concat cs' = concat cs) ->
  (forall bs r, concat r = concat (compress bs) -> exists bs', decompress r = Some bs' /\ concat bs' = concat bs) ->
  forall (objs : list wfjvf) (size : nat) (ign : bool),
  (forall o, In o objs -> wff_is_null o = false) ->
  load_from_file wfjvf Z Byte zf_is_nl wff_loads wff_is_null decode decompress size 0 ign
    (dump_to_file wfjvf Z Byte 10%Z wff_dumps encode compress objs) = (objs, true).
Proof. exact JsonFloatC19.C19_modelf_load_from_file_dump_to_file. Qed.
Print Assumptions C19_modelf_load_from_file_dump_to_file.
Theorem C19_modelf_load_doc_from_file_dump_one :
  forall (Byte : Type)
         (encode : list (list Z) -> list (list Byte)) (decode : list (list Byte) -> option (list (list Z)))
         (compress : list (list Byte) -> list (list Byte))
         (decompress : list (list Byte) -> option (list (list Byte))),
  (forall cs r, drop_empty r = drop_empty [concat (encode cs)] ->
   exists cs', decode r = Some cs' /\ drop_empty cs' = drop_empty [concat cs]) ->
  (forall bs r, drop_empty r = drop_empty [concat (compress bs)] ->
   exists bs', decompress r = Some bs' /\ drop_empty bs' = drop_empty [concat bs]) ->
  forall (o : wfjvf) (ign : bool), wff_is_null o = false ->
  load_doc_from_file wfjvf Z Byte wff_loads wff_is_null decode decompress 0 ign
    (dump_to_file wfjvf Z Byte 10%Z wff_dumps encode compress [o]) = ([o], true).
Proof. exact JsonFloatC19.C19_modelf_load_doc_from_file_dump_one. Qed.
Print Assumptions C19_modelf_load_doc_from_file_dump_one.
Example C19_json_float_model_example :
  jsonf_print (FArr [ffloat (false, 6755399441055744, -42)%Z; ffloat (true, 0, 0)%Z; ffloat (false, 5629499534213120, 1)%Z;
                     ffloat (false, 1, -1074)%Z; FInt 7%Z])
  = [91; 49; 53; 51; 54; 46; 48; 44; 45; 48; 46; 48; 44; 49; 46; 49; 50; 53; 56; 57; 57; 57; 48; 54; 56; 52; 50; 54; 50; 52; 101; 43; 49; 54;
     44; 53; 101; 45; 51; 50; 52; 44; 55; 93]%Z.
Proof. vm_compute. reflexivity. Qed.
(* ---------------------------------------------------------------------------------------------
   END TO END on the modelled stack, no premise left: orjson model with floats (JsonFloat.v) -> text -> UTF-8 incremental
   codec model of C17 (Codec/Wrapper.v, encode / decode EUtf8) -> compression stage (none, or the gzip model of C16:
   gz_comp = the STORED-BLOCK compressor of the model, not zlib's compressor; gz_decomp = the full inflate model, None on
   Error or when the stream is not complete) -> file bytes in ANY re-chunking -> back.  Proved by re-doing the composition
   with the codec premise restricted to texts of valid code points (C19EndToEnd.v, Section OkChars) and discharging every
   stage law from the C16 / C17 theorems.  What this does not say: anything about zlib's own compressor, zstandard, the other
   encodings, or CPython's codecs and orjson themselves (they are tied to these models by the correspondence checks of
   C16, C17 and C19).
   --------------------------------------------------------------------------------------------- *)
Theorem C19_end_to_end_any_rechunking_plain : forall (objs : list wfjvf) (r : list (list Z)) (skip : nat) (ign : bool),
  concat r = dump_to_file wfjvf Z Z 10%Z wff_dumps u8_encode id_compress objs ->
  load_chunks wfjvf Z Z zf_is_nl wff_loads wff_is_null u8_decode id_decompress skip ign r
  = (filter (fun o => negb (wff_is_null o)) (skipn skip objs), true).
Proof. exact C19_e2e_load_any_rechunking_plain. Qed.
Print Assumptions C19_end_to_end_any_rechunking_plain.
Theorem C19_end_to_end_any_rechunking_gzip : forall (objs : list wfjvf) (r : list (list Z)) (skip : nat) (ign : bool),
  concat r = dump_to_file wfjvf Z Z 10%Z wff_dumps u8_encode gz_comp objs ->
  load_chunks wfjvf Z Z zf_is_nl wff_loads wff_is_null u8_decode gz_decomp skip ign r
  = (filter (fun o => negb (wff_is_null o)) (skipn skip objs), true).
Proof. exact C19_e2e_load_any_rechunking_gzip. Qed.
Print Assumptions C19_end_to_end_any_rechunking_gzip.
Theorem C19_end_to_end_load_from_file_plain : forall (objs : list wfjvf) (size skip : nat) (ign : bool),
  load_from_file wfjvf Z Z zf_is_nl wff_loads wff_is_null u8_decode id_decompress size skip ign
    (dump_to_file wfjvf Z Z 10%Z wff_dumps u8_encode id_compress objs)
  = (filter (fun o => negb (wff_is_null o)) (skipn skip objs), true).
Proof. exact C19_e2e_load_from_file_plain. Qed.
Print Assumptions C19_end_to_end_load_from_file_plain.
Theorem C19_end_to_end_load_from_file_gzip : forall (objs : list wfjvf) (size skip : nat) (ign : bool),
  load_from_file wfjvf Z Z zf_is_nl wff_loads wff_is_null u8_decode gz_decomp size skip ign
    (dump_to_file wfjvf Z Z 10%Z wff_dumps u8_encode gz_comp objs)
  = (filter (fun o => negb (wff_is_null o)) (skipn skip objs), true).
Proof. exact C19_e2e_load_from_file_gzip. Qed.
Print Assumptions C19_end_to_end_load_from_file_gzip.
Theorem C19_end_to_end_load_doc_plain : forall (o : wfjvf) (ign : bool), wff_is_null o = false ->
  load_doc_from_file wfjvf Z Z wff_loads wff_is_null u8_decode id_decompress 0 ign
    (dump_to_file wfjvf Z Z 10%Z wff_dumps u8_encode id_compress [o]) = ([o], true).
Proof. exact C19_e2e_load_doc_from_file_plain. Qed.
Print Assumptions C19_end_to_end_load_doc_plain.
Theorem C19_end_to_end_load_doc_gzip : forall (o : wfjvf) (ign : bool), wff_is_null o = false ->
  load_doc_from_file wfjvf Z Z wff_loads wff_is_null u8_decode gz_decomp 0 ign
    (dump_to_file wfjvf Z Z 10%Z wff_dumps u8_encode gz_comp [o]) = ([o], true).
Proof. exact C19_e2e_load_doc_from_file_gzip. Qed.
Print Assumptions C19_end_to_end_load_doc_gzip.
(* further instances (MoreEndToEnd.v): compression = the zstd FRAME model of C16 (zs_comp = the RAW-BLOCK encoder of the model,
   not zstandard's compressor; zs_decomp = the frame scanner used as the repaired zstd.py uses it; compressed blocks are outside
   the model), and the text encoding utf-16 (byte order mark first) instead of utf-8 *)
Theorem C19_end_to_end_any_rechunking_zstd : forall (objs : list wfjvf) (r : list (list Z)) (skip : nat) (ign : bool),
  concat r = dump_to_file wfjvf Z Z 10%Z wff_dumps u8_encode zs_comp objs ->
  load_chunks wfjvf Z Z zf_is_nl wff_loads wff_is_null u8_decode zs_decomp skip ign r
  = (filter (fun o => negb (wff_is_null o)) (skipn skip objs), true).
Proof. exact C19_e2e_load_any_rechunking_zstd. Qed.
Print Assumptions C19_end_to_end_any_rechunking_zstd.
Theorem C19_end_to_end_load_from_file_zstd : forall (objs : list wfjvf) (size skip : nat) (ign : bool),
  load_from_file wfjvf Z Z zf_is_nl wff_loads wff_is_null u8_decode zs_decomp size skip ign
    (dump_to_file wfjvf Z Z 10%Z wff_dumps u8_encode zs_comp objs)
  = (filter (fun o => negb (wff_is_null o)) (skipn skip objs), true).
Proof. exact C19_e2e_load_from_file_zstd. Qed.
Print Assumptions C19_end_to_end_load_from_file_zstd.
Theorem C19_end_to_end_load_doc_zstd : forall (o : wfjvf) (ign : bool), wff_is_null o = false ->
  load_doc_from_file wfjvf Z Z wff_loads wff_is_null u8_decode zs_decomp 0 ign
    (dump_to_file wfjvf Z Z 10%Z wff_dumps u8_encode zs_comp [o]) = ([o], true).
Proof. exact C19_e2e_load_doc_from_file_zstd. Qed.
Print Assumptions C19_end_to_end_load_doc_zstd.
Theorem C19_end_to_end_any_rechunking_utf16 : forall (objs : list wfjvf) (r : list (list Z)) (skip : nat) (ign : bool),
  (concat r = dump_to_file wfjvf Z Z 10%Z wff_dumps (txt_encode Codec.Wrapper.EUtf16) id_compress objs ->
   load_chunks wfjvf Z Z zf_is_nl wff_loads wff_is_null (txt_decode Codec.Wrapper.EUtf16) id_decompress skip ign r
   = (filter (fun o => negb (wff_is_null o)) (skipn skip objs), true))
  /\ (concat r = dump_to_file wfjvf Z Z 10%Z wff_dumps (txt_encode Codec.Wrapper.EUtf16) gz_comp objs ->
      load_chunks wfjvf Z Z zf_is_nl wff_loads wff_is_null (txt_decode Codec.Wrapper.EUtf16) gz_decomp skip ign r
      = (filter (fun o => negb (wff_is_null o)) (skipn skip objs), true))
  /\ (concat r = dump_to_file wfjvf Z Z 10%Z wff_dumps (txt_encode Codec.Wrapper.EUtf16) zs_comp objs ->
      load_chunks wfjvf Z Z zf_is_nl wff_loads wff_is_null (txt_decode Codec.Wrapper.EUtf16) zs_decomp skip ign r
      = (filter (fun o => negb (wff_is_null o)) (skipn skip objs), true)).
Proof.
  exact (fun objs r skip ign => conj (C19_e2e_load_any_rechunking_utf16_plain objs r skip ign)
           (conj (C19_e2e_load_any_rechunking_utf16_gzip objs r skip ign) (C19_e2e_load_any_rechunking_utf16_zstd objs r skip ign))).
Qed.
Print Assumptions C19_end_to_end_any_rechunking_utf16.
(* evaluated: 0.1, a non-ASCII string and a nested object with -0.0, read back in chunks of 1, 7 and 13 bytes *)
Example C19_end_to_end_example :
  map ex_run_plain [1; 7; 13]%nat = [(ex_values, true); (ex_values, true); (ex_values, true)]
  /\ map ex_run_gzip [1; 7; 13]%nat = [(ex_values, true); (ex_values, true); (ex_values, true)].
Proof. exact (conj C19_e2e_plain_example C19_e2e_gzip_example). Qed.
Example C19_json_model_example :
  json_print (JObj [([97]%Z, JArr [JInt 1%Z; JNull; JStr [233; 10; 34]%Z])])
  = [123; 34; 97; 34; 58; 91; 49; 44; 110; 117; 108; 108; 44; 34; 195; 169; 92; 110; 92; 34; 34; 93; 125]%Z.
Proof. vm_compute. reflexivity. Qed.

(* non-vacuity *)
Example C19_load_example :
  z_json_load [([123; 125]%Z, Some 1%N); ([110; 117; 108; 108]%Z, Some 0%N); ([120]%Z, None)] 1 false
    [[123]; [123; 125]; []; [110; 117; 108; 108]; [123; 125]]%Z = ([1; 1]%N, true).
Proof. vm_compute. reflexivity. Qed.
Example C19_load_error_example :
  z_json_load [([123; 125]%Z, Some 1%N); ([120]%Z, None)] 0 false [[123; 125]; [120]; [123; 125]]%Z = ([1]%N, false).
Proof. vm_compute. reflexivity. Qed.
Example C19_raw_read_example : raw_read N 4 [3; 9; 1; 2; 5] [1; 2; 3; 4; 5; 6; 7; 8; 9; 10]%N =
  [[1; 2; 3]; [4; 5; 6; 7]; [8]; [9; 10]]%N.
Proof. vm_compute. reflexivity. Qed.
Example C19_raw_sizes_example : raw_sizes 4 [3; 9; 1; 2; 5]%N 10 = [3; 4; 1; 2]%N.
Proof. vm_compute. reflexivity. Qed.
Example C19_len_example : len_run_timed 0 [[2; 3]; [4]; [0; 0; 1]; [0; 0]]%N = [[2]; []; [7; 0]; [1]; []]%N.
Proof. vm_compute. reflexivity. Qed.
(* lines=False: the whole document in one text item (key [1]) followed by the empty flush items; and what
   happens when the document arrives in two pieces (keys [1], [2], neither parses): nothing is reassembled *)
Example C19_doc_example : z_json_load [([1]%Z, Some 5%N)] 0 false [[1]; []; []]%Z = ([5]%N, true).
Proof. vm_compute. reflexivity. Qed.
Example C19_doc_pieces_example :
  z_json_load [([1]%Z, None); ([2]%Z, None)] 0 true [[1]; [2]; []]%Z = ([], true).
Proof. vm_compute. reflexivity. Qed.
Example C19_doc_read_sizes_example : (doc_read_sizes 0, doc_read_sizes 70000) = ([], [70000]%N).
Proof. vm_compute. reflexivity. Qed.
