(* C20 - parquet dump/load round-trips rows for every row count and batch size  (PARTIAL).
   Full statement (properties.jsonl): a file written by parquet.dump_to_file contains exactly the source
   rows, once each and in order, whatever the number of rows and the batch_size, and load_from_file
   returns them equal, for every load batch size and compression codec.
   What is proved: the rxsci logic - batching (repaired rs.data.batch), create_record with per-call
   column buffers (repaired), append of record batches, re-batching at load - for ALL rows and ALL batch
   sizes, in a model where pyarrow is an oracle: a record batch is the list of its rows, a file is the
   list of the record batches written, reading returns them in order.  pyarrow itself (encoding,
   compression codecs, schemas) is NOT modelled; it is tied by the correspondence test only.
   Only statements here; proofs are `exact <lemma>`. *)
From Coq Require Import List Arith Bool NArith.
From RxVerif Require Import Container.Parquet Container.ParquetProofs.
Import ListNotations.

Theorem C20_batches_concat : forall (R : Type) (n : nat) (rows : list R), concat (batches R n rows) = rows.
Proof. exact batches_concat. Qed.
Print Assumptions C20_batches_concat.

(* every chunk but possibly the last has exactly n rows; a last shorter chunk is non-empty *)
Theorem C20_batches_shape : forall (R : Type) (n : nat) (rows : list R), 1 <= n ->
  exists full tail, batches R n rows = full ++ tail /\ Forall (fun c => length c = n) full /\
                    Forall (fun c => 1 <= length c < n) tail /\ length tail <= 1.
Proof. exact batches_shape. Qed.
Print Assumptions C20_batches_shape.

Theorem C20_no_batch_for_empty_input : forall (R : Type) (n : nat), batches R n [] = [].
Proof. exact batches_nil. Qed.
Print Assumptions C20_no_batch_for_empty_input.

(* hence no duplicate final batch when n divides the row count *)
Theorem C20_batch_sizes : forall (R : Type) (n : nat) (rows : list R), 1 <= n ->
  map (@length R) (batches R n rows) =
  repeat n (length rows / n) ++ (if length rows mod n =? 0 then [] else [length rows mod n]).
Proof. exact batches_sizes. Qed.
Print Assumptions C20_batch_sizes.

Theorem C20_record_batches_are_the_batches : forall (R : Type) (n : nat) (rows : list R),
  dump R n rows = batches R n rows.
Proof. exact dump_batches. Qed.
Print Assumptions C20_record_batches_are_the_batches.

Theorem C20_file_rows_dump_partial : forall (R : Type) (n : nat) (rows : list R),
  file_rows R (dump R n rows) = rows.
Proof. exact file_rows_dump. Qed.
Print Assumptions C20_file_rows_dump_partial.

Theorem C20_load_dump_partial : forall (R : Type) (m n : nat) (rows : list R),
  load R m (dump R n rows) = rows.
Proof. exact load_dump. Qed.
Print Assumptions C20_load_dump_partial.

Theorem C20_row_groups_partial : forall (R : Type) (n : nat) (rows : list R), 1 <= n ->
  row_groups R None (dump R n rows) = batch_sizes n (length rows).
Proof. exact row_groups_dump. Qed.
Print Assumptions C20_row_groups_partial.

(* create_record with buffers shared by all calls (the unrepaired closure) does not have the property *)
Theorem C20_shared_buffers_refuted : exists (n : nat) (rows : list N),
  concat (to_record_shared N [] (batches N n rows)) <> rows.
Proof. exact shared_buffers_refuted. Qed.
Print Assumptions C20_shared_buffers_refuted.

(* non-vacuity *)
Example C20_batch_example :
  batch_timed N 2 [0; 1; 2; 3; 4]%N = [[]; [[0; 1]%N]; []; [[2; 3]%N]; []; [[4%N]]].
Proof. vm_compute. reflexivity. Qed.
Example C20_batch_multiple_example : batch_timed N 2 [0; 1; 2; 3]%N = [[]; [[0; 1]%N]; []; [[2; 3]%N]; []].
Proof. vm_compute. reflexivity. Qed.
Example C20_shared_example : to_record_shared N [] (batches N 2 [0; 1; 2; 3]%N) = [[0; 1]; [0; 1; 2; 3]]%N.
Proof. vm_compute. reflexivity. Qed.
Example C20_row_groups_example : row_groups N (Some 2) (dump N 5 (idx_rows 7)) = [2; 2; 1; 2].
Proof. vm_compute. reflexivity. Qed.
