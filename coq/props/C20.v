(* C20 - parquet dump/load round-trips rows for every row count and batch size  (PARTIAL).
   Full statement (properties.jsonl): a file written by parquet.dump_to_file contains exactly the source
   rows, once each and in order, whatever the number of rows and the batch_size, and load_from_file
   returns them equal, for every load batch size and compression codec.
   What is proved: the rxsci logic - batching (repaired rs.data.batch), create_record with per-call
   column buffers (repaired), append of record batches, re-batching at load - for ALL rows and ALL batch
   sizes, in a model where pyarrow is an oracle: a record batch is the list of its rows, a file is the
   list of the record batches written, reading returns them in order.  pyarrow itself (encoding,
   compression codecs, schemas) is NOT modelled; it is tied by the correspondence test only.
   Only statements here; proofs are `exact <lemma>`. *)
From Coq Require Import List Arith Bool NArith.
From RxVerif Require Import Container.Parquet Container.ParquetProofs Container.ParquetCols Container.ParquetColsProofs.
Import ListNotations.

Theorem C20_batches_concat : forall (R : Type) (n : nat) (rows : list R), concat (batches R n rows) = rows.
Proof. exact batches_concat. Qed.
Print Assumptions C20_batches_concat.

(* every chunk but possibly the last has exactly n rows; a last shorter chunk is non-empty *)
Theorem C20_batches_shape : forall (R : Type) (n : nat) (rows : list R), 1 <= n ->
  exists full tail, batches R n rows = full ++ tail /\ Forall (fun c => length c = n) full /\
                    Forall (fun c => 1 <= length c < n) tail /\ length tail <= 1.
Proof. exact batches_shape. Qed.
Print Assumptions C20_batches_shape.

Theorem C20_no_batch_for_empty_input : forall (R : Type) (n : nat), batches R n [] = [].
Proof. exact batches_nil. Qed.
Print Assumptions C20_no_batch_for_empty_input.

(* hence no duplicate final batch when n divides the row count *)
Theorem C20_batch_sizes : forall (R : Type) (n : nat) (rows : list R), 1 <= n ->
  map (@length R) (batches R n rows) =
  repeat n (length rows / n) ++ (if length rows mod n =? 0 then [] else [length rows mod n]).
Proof. exact batches_sizes. Qed.
Print Assumptions C20_batch_sizes.

Theorem C20_record_batches_are_the_batches : forall (R : Type) (n : nat) (rows : list R),
  dump R n rows = batches R n rows.
Proof. exact dump_batches. Qed.
Print Assumptions C20_record_batches_are_the_batches.

Theorem C20_file_rows_dump_partial : forall (R : Type) (n : nat) (rows : list R),
  file_rows R (dump R n rows) = rows.
Proof. exact file_rows_dump. Qed.
Print Assumptions C20_file_rows_dump_partial.

Theorem C20_load_dump_partial : forall (R : Type) (m n : nat) (rows : list R),
  load R m (dump R n rows) = rows.
Proof. exact load_dump. Qed.
Print Assumptions C20_load_dump_partial.

Theorem C20_row_groups_partial : forall (R : Type) (n : nat) (rows : list R), 1 <= n ->
  row_groups R None (dump R n rows) = batch_sizes n (length rows).
Proof. exact row_groups_dump. Qed.
Print Assumptions C20_row_groups_partial.

(* create_record with buffers shared by all calls (the unrepaired closure) does not have the property *)
Theorem C20_shared_buffers_refuted : exists (n : nat) (rows : list N),
  concat (to_record_shared N [] (batches N n rows)) <> rows.
Proof. exact shared_buffers_refuted. Qed.
Print Assumptions C20_shared_buffers_refuted.


(* ---------------- the column layer: create_record / row reconstruction ---------------- *)
(* create_record = transposition of the rows projected on the schema names; it raises (None) exactly when some
   row lacks a schema name *)
Theorem C20_cols_create_record_is_transposition : forall (K V : Type) (keq : K -> K -> bool) (names : list K) (data : list (row K V)),
  create_cols K V keq names data = option_map (transpose V (length names)) (project_all K V keq names data).
Proof. exact create_cols_spec. Qed.
Print Assumptions C20_cols_create_record_is_transposition.

Theorem C20_cols_create_record_raises_on_missing_field : forall (K V : Type) (keq : K -> K -> bool) names data,
  project_all K V keq names data = None -> create_cols K V keq names data = None.
Proof. exact create_cols_missing_field. Qed.
Print Assumptions C20_cols_create_record_raises_on_missing_field.

(* one record batch: one column per schema name, one entry per row, and zip over the columns gives the rows back *)
Theorem C20_cols_record_batch_round_trip : forall (K V : Type) (keq : K -> K -> bool) names data rvs,
  names <> [] -> project_all K V keq names data = Some rvs ->
  exists cols, create_cols K V keq names data = Some cols /\
               length cols = length names /\
               Forall (fun c => length c = length data) cols /\
               rows_of_cols K V names cols = map (combine names) rvs.
Proof. exact cols_round_trip. Qed.
Print Assumptions C20_cols_record_batch_round_trip.

(* the rebuilt row has exactly the schema names as keys, in schema order, each with the source row's value *)
Theorem C20_cols_rebuilt_row_fields : forall (K V : Type) (keq : K -> K -> bool),
  (forall a b, keq a b = true <-> a = b) -> forall names r rv, NoDup names -> project K V keq names r = Some rv ->
  map fst (combine names rv) = names /\
  forall n, In n names -> lookup K V keq (combine names rv) n = lookup K V keq r n.
Proof. exact rebuilt_row_fields. Qed.
Print Assumptions C20_cols_rebuilt_row_fields.

(* key order and extra keys of a pushed dict are irrelevant: only its values under the schema names are read *)
Theorem C20_cols_key_order_and_extra_keys_irrelevant : forall (K V : Type) (keq : K -> K -> bool) names r r',
  (forall n, In n names -> lookup K V keq r n = lookup K V keq r' n) -> project K V keq names r = project K V keq names r'.
Proof. exact project_ext. Qed.
Print Assumptions C20_cols_key_order_and_extra_keys_irrelevant.

(* whole path at the column layer: batches of any size n, each transposed, all rebuilt at load = every source row
   rebuilt, once, in order *)
Theorem C20_cols_end_to_end_partial : forall (K V : Type) (keq : K -> K -> bool) names n data,
  names <> [] -> Forall (row_ok K V keq names) data ->
  exists rbs, Forall2 (fun b rb => create_cols K V keq names b = Some rb) (batches (row K V) n data) rbs /\
              concat (map (rows_of_cols K V names) rbs) = map (rebuild K V keq names) data.
Proof. exact cols_end_to_end. Qed.
Print Assumptions C20_cols_end_to_end_partial.

(* and a row pushed with exactly the schema names as keys in schema order comes back identical *)
Theorem C20_cols_schema_ordered_row_unchanged : forall (K V : Type) (keq : K -> K -> bool),
  (forall a b, keq a b = true <-> a = b) -> forall names (r : row K V), NoDup names -> map fst r = names ->
  rebuild K V keq names r = r /\ row_ok K V keq names r.
Proof. exact rebuild_id. Qed.
Print Assumptions C20_cols_schema_ordered_row_unchanged.

(* outside the quantifier of C20 (schemas have columns): with no column, zip() yields no row *)
Theorem C20_cols_empty_schema_loses_rows_in_model : exists data : list (row N N),
  data <> [] /\ option_map (rows_of_cols N N []) (create_cols N N N.eqb [] data) = Some [].
Proof. exact empty_schema_loses_rows. Qed.
Print Assumptions C20_cols_empty_schema_loses_rows_in_model.

(* non-vacuity *)
Example C20_batch_example :
  batch_timed N 2 [0; 1; 2; 3; 4]%N = [[]; [[0; 1]%N]; []; [[2; 3]%N]; []; [[4%N]]].
Proof. vm_compute. reflexivity. Qed.
Example C20_batch_multiple_example : batch_timed N 2 [0; 1; 2; 3]%N = [[]; [[0; 1]%N]; []; [[2; 3]%N]; []].
Proof. vm_compute. reflexivity. Qed.
Example C20_shared_example : to_record_shared N [] (batches N 2 [0; 1; 2; 3]%N) = [[0; 1]; [0; 1; 2; 3]]%N.
Proof. vm_compute. reflexivity. Qed.
Example C20_row_groups_example : row_groups N (Some 2) (dump N 5 (idx_rows 7)) = [2; 2; 1; 2].
Proof. vm_compute. reflexivity. Qed.
Example C20_cols_example :
  option_map (rows_of_cols N N [1; 2]%N) (create_cols N N N.eqb [1; 2] [[(2, 20); (9, 0); (1, 10)]; [(1, 11); (2, 21)]])%N
  = Some [[(1, 10); (2, 20)]; [(1, 11); (2, 21)]]%N.
Proof. vm_compute. reflexivity. Qed.
Example C20_cols_columns_example :
  create_cols N N N.eqb [1; 2]%N [[(2, 20); (1, 10)]; [(1, 11); (2, 21)]]%N = Some [[10; 11]; [20; 21]]%N.
Proof. vm_compute. reflexivity. Qed.
Example C20_cols_missing_example : create_cols N N N.eqb [1; 2]%N [[(1, 10); (2, 20)]; [(1, 11)]]%N = None.
Proof. vm_compute. reflexivity. Qed.
